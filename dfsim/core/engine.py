"""Check driver: sweep -> determinism sample -> triage -> shrink -> replay file -> evidence."""
import json
import os
import sys
import time

from . import findings, pool, seeds, shrink

VERIF = os.path.dirname(os.path.dirname(os.path.dirname(os.path.abspath(__file__))))


def repo_state():
    import subprocess
    repo = os.environ.get('VERIF_REPO', '/repo')
    try:
        head = subprocess.run(['git', '-C', repo, 'rev-parse', 'HEAD'], capture_output=True, text=True, timeout=20).stdout.strip()
        diff = subprocess.run(['git', '-C', repo, 'diff', 'HEAD', '--', 'dataflows'], capture_output=True, timeout=20).stdout
        import hashlib
        return {'repo': repo, 'repo_head': head, 'dirty_sha': hashlib.sha256(diff).hexdigest()[:16] if diff else None}
    except Exception as e:  # noqa
        return {'repo': repo, 'error': str(e)}


def sc_of(rec):
    return (rec.get('extra') or {}).get('expanded') or rec.get('scenario')


def vclass(rec):
    return (rec.get('clause'), rec.get('key'))


def run_check(prop, tier, verif_seed, workers=16, runs=None, out=sys.stdout, write_evidence=True):
    t0 = time.time()
    cfg = dict(prop.TIERS[tier])
    if runs is not None:
        cfg['runs'] = runs
    if os.environ.get('DFSIM_RUNS'):
        cfg['runs'] = int(os.environ['DFSIM_RUNS'])
    n = cfg['runs']
    # DFSIM_WALL_SCALE shortens / stretches the batch wall cap of a tier (soaks on a shared machine); run seeds do not depend on it
    deadline = t0 + cfg['wall'] * float(os.environ.get('DFSIM_WALL_SCALE') or 1.0)
    tasks = [{'i': i, 'seed': seeds.run_seed(verif_seed, prop.ID, tier, i)} for i in range(n)]
    print('dfsim %s tier=%s VERIF_SEED=%d runs=%d workers=%d' % (prop.ID, tier, verif_seed, n, workers), file=out)
    out.flush()
    recs = pool.run_batch(prop, tasks, tier, workers=workers, wall=cfg.get('run_wall', 60), deadline=deadline)
    t_sweep = time.time() - t0
    by_i = {r['i']: r for r in recs}

    # --- determinism sample: ~2% of the runs again, in a differently sized pool
    harness = [r for r in recs if r['verdict'] == 'harness']
    nondet = []
    sample_idx = [r['i'] for r in recs if r['verdict'] != 'harness']
    k = max(3, len(sample_idx) // 50) if sample_idx else 0
    k = min(k, 40)
    rs = seeds.rng_for(verif_seed, 'detsample', prop.ID)
    sample_idx = sorted(rs.sample(sample_idx, min(k, len(sample_idx))))
    if sample_idx and not os.environ.get('DFSIM_NO_DETSAMPLE'):
        again = pool.run_batch(prop, [tasks[i] for i in sample_idx], tier, workers=max(1, min(3, workers // 4)),
                               wall=cfg.get('run_wall', 60))
        for r2 in again:
            r1 = by_i[r2['i']]
            if (r1['digest'], r1['verdict'], r1.get('clause')) != (r2.get('digest'), r2['verdict'], r2.get('clause')):
                nondet.append((r1, r2))

    # --- triage violations
    entries = findings.load()
    viol = [r for r in recs if r['verdict'] == 'violation']
    known = {}
    unknown = {}
    for r in viol:
        e = findings.match(prop.ID, sc_of(r), r, entries)
        if e is not None:
            known.setdefault(e['id'], [e, 0, r])[1] += 1
        else:
            unknown.setdefault(vclass(r), []).append(r)

    if os.environ.get('DFSIM_CLASSES'):
        for cls, rs_ in sorted(unknown.items(), key=lambda kv: -len(kv[1])):
            print('CLASS %s/%s x%d e.g. i=%d: %s' % (cls[0], cls[1], len(rs_), rs_[0]['i'], (rs_[0].get('message') or '')[:700].replace('\n', ' ')), file=out)
    reported = []
    shrink_stats = []
    budget = 40.0 if tier == 'quick' else 240.0
    for cls, rs_ in list(unknown.items())[:4]:
        first = min(rs_, key=lambda r: shrink.size_of(r.get('scenario')))
        if os.environ.get('DFSIM_NO_SHRINK'):
            sc, rec, st = sc_of(first), first, {'skipped': True}
        else:
            sc, rec, st = minimise(prop, first, tier, cfg, budget / max(1, min(4, len(unknown))))
        shrink_stats.append(st)
        e = findings.match(prop.ID, sc, rec, entries)
        if e is not None:
            known.setdefault(e['id'], [e, 0, rec])[1] += len(rs_)
            continue
        path = write_replay(prop, first['seed'], sc, rec, st)
        reported.append((cls, path, rec, len(rs_)))

    for fid, (e, cnt, r) in sorted(known.items()):
        print('KNOWN-FINDING: property=%s %s [%s; %d run(s), e.g. clause=%s: %s]' % (
            prop.ID, e['what'], fid, cnt, r.get('clause'), (r.get('message') or '')[:160].replace('\n', ' ')), file=out)
    for cls, path, rec, cnt in reported:
        print('VIOLATION property=%s replay=%s' % (prop.ID, path), file=out)
        print('  clause=%s key=%s runs=%d: %s' % (rec.get('clause'), rec.get('key'), cnt,
                                                 (rec.get('message') or '')[:400].replace('\n', ' ')), file=out)
    for r in harness[:5]:
        print('HARNESS-ERROR run i=%d seed=%d: %s' % (r['i'], r['seed'], (r.get('why') or '')[:1500]), file=out)
    for r1, r2 in nondet[:5]:
        print('HARNESS-ERROR nondeterminism: run i=%d seed=%d digests %s vs %s verdicts %s vs %s' % (
            r1['i'], r1['seed'], r1['digest'], r2.get('digest'), r1['verdict'], r2['verdict']), file=out)

    wall = time.time() - t0
    ev = build_evidence(prop, tier, verif_seed, recs, wall, t_sweep, len(reported), known, harness, nondet,
                        sample_idx, shrink_stats, n, workers)
    if write_evidence:
        os.makedirs(os.path.join(VERIF, 'evidence'), exist_ok=True)
        with open(os.path.join(VERIF, 'evidence', prop.ID + '.json'), 'w') as f:
            json.dump(ev, f, indent=1, sort_keys=True, default=repr)
    cov = ev['coverage']
    print('%s: %d runs (%d ok, %d violation, %d discarded, %d harness) in %.1fs; distinct non-trivial=%d; faults fired=%s' % (
        prop.ID, len(recs), cov['ok'], len(viol), cov['discarded'], len(harness), wall, cov['distinct_nontrivial'],
        json.dumps(cov['faults_fired'], sort_keys=True)), file=out)
    if reported:
        return 1
    if harness or nondet:
        return 2
    if not recs:
        print('HARNESS-ERROR no runs executed', file=out)
        return 2
    return 0


def minimise(prop, rec, tier, cfg, budget_s):
    sc0 = rec['scenario']
    cls = vclass(rec)
    cnt = [0]

    def run(sc):
        cnt[0] += 1
        return pool.run_one(prop, {'i': 900000 + cnt[0], 'seed': rec['seed'], 'scenario': sc}, tier, cfg.get('run_wall', 60))

    best, best_rec = sc0, rec
    try:
        f = prop.focus(sc0, rec)
    except Exception:  # noqa
        f = None
    if f is not None:
        r = run(f)
        if r.get('verdict') == 'violation' and vclass(r) == cls:
            best, best_rec = f, r
    sc, r, st = shrink.shrink(best, run, lambda x: vclass(x) == cls, normalize=prop.normalize, budget_s=budget_s,
                              optional_keys=getattr(prop, 'SHRINK_OPTIONAL', ()),
                              frozen_keys=getattr(prop, 'SHRINK_FROZEN', ()))
    if r is not None:
        best, best_rec = sc, r
    # final confirmation in a fresh process: the replay file must reproduce
    conf = run(best)
    st['confirmed'] = conf.get('verdict') == 'violation' and vclass(conf) == cls
    if not st['confirmed']:
        best, best_rec = sc0, rec
    return best, best_rec, st


def write_replay(prop, seed, sc, rec, st):
    d = os.path.join(VERIF, 'replays')
    os.makedirs(d, exist_ok=True)
    path = os.path.join(d, '%s-%d.json' % (prop.ID, seed))
    with open(path, 'w') as f:
        json.dump({'property': prop.ID, 'seed': seed,
                   'violation': {'clause': rec.get('clause'), 'key': rec.get('key'), 'message': rec.get('message'),
                                 'detail': rec.get('detail')},
                   'scenario': sc, 'shrink': st, 'code': repo_state()}, f, indent=1, sort_keys=True, default=repr)
    return path


def replay(prop, path, tier, out=sys.stdout):
    with open(path) as f:
        rp = json.load(f)
    rec = pool.run_one(prop, {'i': 0, 'seed': rp['seed'], 'scenario': rp['scenario']}, tier,
                       prop.TIERS[tier].get('run_wall', 60))
    print('replay %s: verdict=%s clause=%s key=%s digest=%s' % (path, rec['verdict'], rec.get('clause'), rec.get('key'),
                                                              rec.get('digest')), file=out)
    if rec['verdict'] == 'violation':
        e = findings.match(prop.ID, rp['scenario'], rec)
        if e is not None:
            print('KNOWN-FINDING: property=%s %s [%s]' % (prop.ID, e['what'], e['id']), file=out)
            return 0
        print('VIOLATION property=%s replay=%s' % (prop.ID, path), file=out)
        print('  %s' % (rec.get('message') or '')[:1000], file=out)
        want = rp.get('violation', {})
        if want and (want.get('clause'), want.get('key')) != vclass(rec):
            print('  note: recorded violation class was %s/%s' % (want.get('clause'), want.get('key')), file=out)
        return 1
    if rec['verdict'] == 'harness':
        print('HARNESS-ERROR %s' % rec.get('why'), file=out)
        return 2
    print('replay did not reproduce a violation (verdict %s)' % rec['verdict'], file=out)
    return 0


def build_evidence(prop, tier, verif_seed, recs, wall, t_sweep, n_viol, known, harness, nondet, det_idx, shrink_stats,
                   n_planned, workers):
    fired, probes, counters = {}, {}, {}
    for r in recs:
        for src, dst in ((r.get('fired') or {}, fired), (r.get('probes') or {}, probes), (r.get('counters') or {}, counters)):
            for k, v in src.items():
                dst[k] = dst.get(k, 0) + v
    ok = sum(1 for r in recs if r['verdict'] == 'ok')
    disc = sum(1 for r in recs if r['verdict'] == 'discard')
    nt = set()
    for r in recs:
        if r.get('nontrivial') and r['verdict'] in ('ok', 'violation'):
            if r.get('ntkeys'):
                nt.update(r['ntkeys'])
            else:
                nt.add(r.get('ntkey') or r.get('digest'))
    digests = set(r.get('digest') for r in recs if r['verdict'] in ('ok', 'violation'))
    samples = []
    for r in recs:
        if r.get('nontrivial') and r['verdict'] == 'ok' and len(samples) < 4:
            s = r.get('sample') or prop.sample_of(r.get('scenario'))
            if shrink.size_of(s) < 6000:
                samples.append({'seed': r['seed'], 'case': s})
    if not samples:
        for r in recs[:2]:
            s = r.get('sample') or r.get('scenario')
            samples.append({'seed': r['seed'], 'case': s if shrink.size_of(s) < 6000 else '<large>'})
    per_hour = 3600.0 / t_sweep if t_sweep > 0 else 0
    cov = {
        'evaluations': len(recs),
        'distinct_nontrivial': len(nt),
        'rule': prop.RULE,
        'samples': samples,
        'exhaustive': False,
        'planned_runs': n_planned,
        'ok': ok,
        'discarded': disc,
        'violations_unlisted': n_viol,
        'known_findings_hit': {k: v[1] for k, v in known.items()},
        'harness_errors': len(harness),
        'distinct_run_digests': len(digests),
        'runs_per_hour': int(len(recs) * per_hour),
        'seeds_per_hour': int(len(recs) * per_hour),
        'simulated_time': {'unit': prop.SIMTIME_UNIT, 'totals': counters},
        'faults_fired': fired,
        'probes': probes,
        'probes_at_zero': sorted(p for p in getattr(prop, 'PROBES', []) if not probes.get(p)),
        'determinism_sample': {'rerun': len(det_idx), 'mismatches': len(nondet)},
        'real_vs_stub': prop.REAL_VS_STUB,
        'workers': workers,
        'shrink': shrink_stats,
        'code': repo_state(),
    }
    extra = getattr(prop, 'extra_coverage', None)
    if extra:
        cov.update(extra(recs))
    return {'property_id': prop.ID, 'tier': tier, 'seed': int(verif_seed), 'level': prop.LEVEL, 'coverage': cov,
            'assumptions': list(prop.ASSUMPTIONS), 'wall_s': round(wall, 2), 'violations': n_viol,
            'technique': prop.TECHNIQUE}
