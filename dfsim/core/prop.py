"""Base class of a property check."""


class Prop:
    ID = None
    TITLE = ''
    LEVEL = 'exploration'           # evidence level
    TECHNIQUE = ''
    RULE = ''                       # how cases are generated and what makes one non-trivial / distinct
    ASSUMPTIONS = []
    REAL_VS_STUB = {}
    # tier -> dict(runs=N, wall=max seconds for the sweep, run_wall=per-run watchdog)
    TIERS = {'quick': dict(runs=200, wall=90, run_wall=60),
             'thorough': dict(runs=5000, wall=900, run_wall=120)}
    SIMTIME_UNIT = 'logical steps'

    def generate(self, rng, tier):
        raise NotImplementedError

    def execute(self, sc, ctx):
        raise NotImplementedError

    # -- shrinking support ---------------------------------------------------
    def focus(self, sc, rec):
        """Narrow a scenario to the part the violation record points at (e.g. the
        one crash point of a sweep).  Return a new scenario or None."""
        return None

    def normalize(self, sc):
        """Repair references after structural shrinking (clamp indices...)."""
        return sc

    # -- evidence ------------------------------------------------------------
    def sample_of(self, sc):
        return sc
