"""Seed discipline: one integer decides everything.

VERIF_SEED -> run_seed = H(VERIF_SEED, property, tier, i).  A run is a pure
function of (run_seed, generator, code under test).  Nothing here reads a clock
or any other ambient source.
"""
import hashlib
import random


def H(*parts):
    h = hashlib.sha256()
    for p in parts:
        h.update(repr(p).encode())
        h.update(b'\x00')
    return int.from_bytes(h.digest()[:8], 'big')


def run_seed(verif_seed, prop_id, tier, i):
    return H('dfsim-v1', int(verif_seed), prop_id, tier, int(i))


def rng_for(seed, *stream):
    """Independent PRNG stream derived from a run seed (so that e.g. the
    scheduler's draws do not shift when the workload generator changes)."""
    return random.Random(H(seed, *stream))


def digest(obj):
    import json
    return hashlib.sha256(
        json.dumps(obj, sort_keys=True, default=repr, separators=(',', ':')).encode()
    ).hexdigest()[:24]
