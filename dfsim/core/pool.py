"""Zygote / fork executor.

orchestrator ── W workers (zygotes: dataflows imported, nothing executed, no threads)
                  └─ one forked child per simulated run (own process group, alarm watchdog)

Run i of a batch is handled by worker i mod W; results come back as JSON lines
over one pipe per worker.  Which worker runs a seed has no influence on the run
(the child is a fresh fork of an idle zygote either way); the determinism
self-test checks exactly that with W=1 and W=16.
"""
import json
import os
import select
import shutil
import signal
import sys
import time
import traceback

from . import ctx as ctxmod
from . import seeds

SCRATCH_ROOT = None


def scratch_root():
    global SCRATCH_ROOT
    if SCRATCH_ROOT is None:
        base = os.environ.get('DFSIM_SCRATCH')
        if not base:
            base = '/dev/shm' if os.path.isdir('/dev/shm') and os.access('/dev/shm', os.W_OK) else None
        if base is None:
            import tempfile
            base = tempfile.gettempdir()
        SCRATCH_ROOT = os.path.join(base, 'dfsim-%d' % os.getpid())
        os.makedirs(SCRATCH_ROOT, exist_ok=True)
    return SCRATCH_ROOT


def cleanup_scratch():
    if SCRATCH_ROOT and os.path.isdir(SCRATCH_ROOT):
        shutil.rmtree(SCRATCH_ROOT, ignore_errors=True)


def _run_child(prop, task, wfd, tier, wall):
    """Body of the forked run child.  Never returns."""
    code = 3
    try:
        os.setpgid(0, 0)
        # The cyclic GC decides when abandoned generators run their finally blocks and when
        # forgotten files are closed; its trigger points depend on allocation counts inherited
        # from the zygote.  The simulator owns that choice: automatic collection is off, the
        # harness collects at defined points (end of every flow run / sub-run).
        import gc
        gc.collect()
        gc.disable()
        signal.signal(signal.SIGALRM, signal.SIG_DFL)
        signal.alarm(wall)
        devnull = os.open(os.devnull, os.O_WRONLY)
        if not os.environ.get('DFSIM_SHOW_OUTPUT'):
            os.dup2(devnull, 1)
            os.dup2(devnull, 2)
        idx, seed, scenario = task['i'], task['seed'], task.get('scenario')
        scratch = os.path.join(scratch_root(), 'r%d-%d' % (idx, os.getpid()))
        os.makedirs(scratch)
        os.chdir(scratch)
        c = ctxmod.RunCtx(seed, scratch, tier)
        rec = {'i': idx, 'seed': seed}
        try:
            if scenario is None:
                scenario = prop.generate(seeds.rng_for(seed, 'gen'), tier)
            rec['scenario'] = scenario
            c.log('seed', seed)
            prop.execute(scenario, c)
            rec['verdict'] = 'ok'
        except ctxmod.Violation as v:
            rec.update(verdict='violation', clause=v.clause, key=v.key, message=v.message[:2000],
                       detail=ctxmod.jsonable(v.detail))
        except ctxmod.Discard as d:
            rec.update(verdict='discard', why=str(d)[:300])
        except ctxmod.HarnessError as e:
            rec.update(verdict='harness', why=str(e)[:3000])
        except BaseException as e:  # noqa
            rec.update(verdict='harness', why='unexpected %s: %s\n%s' % (type(e).__name__, e, traceback.format_exc()[-3000:]))
        rec['digest'] = seeds.digest(ctxmod.jsonable(c.events))
        if os.environ.get('DFSIM_KEEP_EVENTS'):
            rec['events'] = ctxmod.jsonable(c.events)
        rec['n_events'] = len(c.events)
        rec['probes'] = c.probes
        rec['fired'] = c.fired
        rec['counters'] = c.counters
        rec['nontrivial'] = c.nontrivial
        rec['ntkey'] = c.ntkey
        rec['ntkeys'] = sorted(c.ntkeys)
        rec['sample'] = c.sample
        rec['extra'] = c.extra
        ctxmod._write_all(wfd, (json.dumps(rec, default=repr) + '\n').encode())
        os.chdir('/')
        if os.environ.get('DFSIM_KEEP_SCRATCH'):
            # debugging aid: copy the run's scratch directory aside before it is removed
            shutil.copytree(scratch, os.path.join(os.environ['DFSIM_KEEP_SCRATCH'], os.path.basename(scratch)), symlinks=True, dirs_exist_ok=True)
        shutil.rmtree(scratch, ignore_errors=True)
        code = 0
    except BaseException:  # noqa
        try:
            ctxmod._write_all(wfd, (json.dumps({'i': task['i'], 'seed': task['seed'], 'verdict': 'harness',
                                                 'why': traceback.format_exc()[-3000:]}) + '\n').encode())
            code = 0
        except BaseException:  # noqa
            pass
    finally:
        os._exit(code)


def run_one(prop, task, tier, wall):
    """Fork one run child from this (pristine) process and return its record."""
    r, w = os.pipe()
    pid = os.fork()
    if pid == 0:
        os.close(r)
        _run_child(prop, task, w, tier, wall)
    os.close(w)
    chunks = []
    while True:
        b = os.read(r, 1 << 16)
        if not b:
            break
        chunks.append(b)
    os.close(r)
    _, st = os.waitpid(pid, 0)
    try:
        os.killpg(pid, signal.SIGKILL)   # mop up anything the run left behind
    except (ProcessLookupError, PermissionError):
        pass
    # scratch dirs of a run that died
    for d in os.listdir(scratch_root()):
        if d.endswith('-%d' % pid):
            shutil.rmtree(os.path.join(scratch_root(), d), ignore_errors=True)
    data = b''.join(chunks)
    if os.WIFSIGNALED(st):
        return {'i': task['i'], 'seed': task['seed'], 'verdict': 'harness',
                'why': 'run child killed by signal %d (%s)' % (os.WTERMSIG(st), 'watchdog %ds' % wall if os.WTERMSIG(st) == signal.SIGALRM else '?')}
    try:
        return json.loads(data.decode().strip().split('\n')[-1])
    except Exception:
        return {'i': task['i'], 'seed': task['seed'], 'verdict': 'harness',
                'why': 'run child gave no record (exit %r): %r' % (st, data[-500:])}


def _worker(prop, tasks, wfd, tier, wall, deadline):
    try:
        signal.signal(signal.SIGTERM, signal.SIG_DFL)
        for t in tasks:
            if deadline is not None and time.time() > deadline:
                break
            rec = run_one(prop, t, tier, wall)
            ctxmod._write_all(wfd, (json.dumps(rec, default=repr) + '\n').encode())
    finally:
        os._exit(0)


def run_batch(prop, tasks, tier, workers=16, wall=120, deadline=None, on_result=None):
    """Run tasks [{'i':, 'seed':, 'scenario': optional}] over W forked workers.
    Returns records sorted by i (records of tasks skipped at the deadline are absent)."""
    workers = max(1, min(workers, len(tasks) or 1))
    scratch_root()
    pipes = {}
    pids = []
    sys.stdout.flush()
    for wi in range(workers):
        r, w = os.pipe()
        pid = os.fork()
        if pid == 0:
            os.close(r)
            for fd in pipes:
                os.close(fd)
            _worker(prop, tasks[wi::workers], w, tier, wall, deadline)
        os.close(w)
        pipes[r] = b''
        pids.append(pid)
    out = []
    while pipes:
        ready, _, _ = select.select(list(pipes), [], [], 1.0)
        for fd in ready:
            b = os.read(fd, 1 << 16)
            if not b:
                os.close(fd)
                del pipes[fd]
                continue
            buf = pipes[fd] + b
            *lines, rest = buf.split(b'\n')
            pipes[fd] = rest
            for ln in lines:
                if ln:
                    rec = json.loads(ln)
                    out.append(rec)
                    if on_result:
                        on_result(rec)
    for pid in pids:
        os.waitpid(pid, 0)
    out.sort(key=lambda r: r['i'])
    return out
