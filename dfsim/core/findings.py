"""Known findings: genuine defects of datahq/dataflows that were recorded rather
than repaired.  The file is committed and is never written at run time.

Entry (status 'known'):
  {"id": "...", "property": "C09", "status": "known", "clauses": ["path-points-at-file"],
   "predicate": "<name of a function in dfsim.findings_predicates>", "what": "one line"}
Entry (status 'fixed') - suppresses nothing, kept as a record:
  {"property": "C07", "status": "fixed", "commit": "<sha>", "what": "..."}

A violation record matches an entry only if property and clause agree AND the
entry's narrow predicate holds of (scenario, violation record); any other
violation of the same property is reported as a VIOLATION.
"""
import json
import os

FILE = os.path.join(os.path.dirname(os.path.dirname(os.path.dirname(os.path.abspath(__file__)))), 'known_findings.json')


def load():
    if not os.path.exists(FILE):
        return []
    with open(FILE) as f:
        return json.load(f).get('findings', [])


def match(prop_id, scenario, rec, entries=None):
    from .. import findings_predicates as fp
    entries = load() if entries is None else entries
    for e in entries:
        if e.get('status') != 'known' or e.get('property') != prop_id:
            continue
        if e.get('clauses') and rec.get('clause') not in e['clauses']:
            continue
        pred = getattr(fp, e['predicate'], None)
        if pred is None:
            continue
        try:
            if pred(scenario, rec):
                return e
        except Exception:
            continue
    return None
