"""Delta-debugging over the scenario JSON.

A candidate is accepted when a fresh-process run of it shows the *same
violation class* (clause, key).  Candidates: drop chunks of every list (halves,
quarters, ... single elements), integers toward 0, floats toward 0, strings
toward 'a', dict-valued optional entries removed (keys listed by the property
in ``SHRINK_OPTIONAL``).  Budget-capped; best-so-far is kept.
"""
import copy
import json
import time


def size_of(sc):
    return len(json.dumps(sc, sort_keys=True, default=repr))


def _walk(node, path=()):
    yield path, node
    if isinstance(node, dict):
        for k in sorted(node):
            yield from _walk(node[k], path + (k,))
    elif isinstance(node, list):
        for i, v in enumerate(node):
            yield from _walk(v, path + (i,))


def _get(root, path):
    for p in path:
        root = root[p]
    return root


def _set(root, path, value):
    root = copy.deepcopy(root)
    if not path:
        return value
    cur = root
    for p in path[:-1]:
        cur = cur[p]
    cur[path[-1]] = value
    return root


def _del(root, path):
    root = copy.deepcopy(root)
    cur = root
    for p in path[:-1]:
        cur = cur[p]
    del cur[path[-1]]
    return root


def candidates(sc, optional_keys=(), frozen_keys=()):
    nodes = list(_walk(sc))

    def frozen(path):
        return any(p in frozen_keys for p in path if isinstance(p, str))
    # 1. lists: remove chunks, biggest lists first
    lists = [(p, n) for p, n in nodes if isinstance(n, list) and len(n) > 0 and not frozen(p)]
    lists.sort(key=lambda pn: -size_of(pn[1]))
    for path, lst in lists:
        n = len(lst)
        chunk = n
        while chunk >= 1:
            for start in range(0, n, chunk):
                new = lst[:start] + lst[start + chunk:]
                if len(new) < n:
                    yield _set(sc, path, new)
            chunk //= 2
    # 2. optional dict entries
    for path, node in nodes:
        if isinstance(node, dict) and not frozen(path):
            for k in sorted(node):
                if k in optional_keys:
                    yield _del(sc, path + (k,))
    # 3. scalars
    for path, node in nodes:
        if frozen(path):
            continue
        if isinstance(node, bool):
            continue
        if isinstance(node, int) and node != 0:
            yield _set(sc, path, 0)
            if abs(node) > 1:
                yield _set(sc, path, node // 2)
                yield _set(sc, path, node - 1 if node > 0 else node + 1)
        elif isinstance(node, float) and node != 0.0:
            yield _set(sc, path, 0.0)
        elif isinstance(node, str) and len(node) > 1 and 'rows' in path:
            # only data cells are shortened; names, kinds and options are left alone
            yield _set(sc, path, node[:1])


def shrink(scenario, run, same_class, normalize=lambda s: s, budget_s=30.0, optional_keys=(), frozen_keys=(),
           max_runs=400):
    """run(sc) -> record; same_class(record) -> bool.  Returns (best_scenario, best_record, stats)."""
    t0 = time.time()
    best = scenario
    best_rec = None
    tried = set()
    runs = 0
    accepted = 0
    improved = True
    while improved and time.time() - t0 < budget_s and runs < max_runs:
        improved = False
        for cand in candidates(best, optional_keys, frozen_keys):
            if time.time() - t0 > budget_s or runs >= max_runs:
                break
            try:
                cand = normalize(cand)
            except Exception:
                continue
            if cand is None:
                continue
            key = json.dumps(cand, sort_keys=True, default=repr)
            if key in tried or len(key) >= size_of(best):
                continue
            tried.add(key)
            rec = run(cand)
            runs += 1
            if rec.get('verdict') == 'violation' and same_class(rec):
                best, best_rec = cand, rec
                accepted += 1
                improved = True
                break
    return best, best_rec, {'shrink_runs': runs, 'accepted': accepted, 'seconds': round(time.time() - t0, 2),
                            'size_before': size_of(scenario), 'size_after': size_of(best)}
