"""Per-run context: event log, probes, verdicts, sub-process runs.

A *run* executes in a freshly forked child of a pristine zygote.  Inside a run
the property code may fork further *sub-runs* (one per operation of a history:
a dump, a crash run, a resume ...) so that every operation starts from the same
pristine interpreter state and a simulated crash is a real process death.
"""
import json
import os
import signal
import sys
import traceback

from . import seeds

CRASH_EXIT = 77          # exit status of a simulated kill (seam A)
SUBRUN_OK_EXIT = 0


class Violation(Exception):
    def __init__(self, clause, key, message, detail=None):
        super().__init__('%s/%s: %s' % (clause, key, message))
        self.clause = clause
        self.key = key
        self.message = message
        self.detail = detail or {}


class Discard(Exception):
    """Scenario is outside the property's quantifier (ill-typed, reference raised...)."""


class HarnessError(Exception):
    pass


def jsonable(o, depth=0):
    """Deterministic JSON-able rendering of arbitrary values (typed, so that
    1 != '1' != Decimal(1) in comparisons made over rendered values)."""
    import datetime
    import decimal
    if o is None or isinstance(o, (bool, int, str)):
        return o
    if isinstance(o, float):
        return {'~f': repr(o)}
    if isinstance(o, decimal.Decimal):
        return {'~d': str(o)}
    if isinstance(o, datetime.datetime):
        off = o.utcoffset()
        return {'~dt': o.replace(tzinfo=None).isoformat(), 'off': None if off is None else off.total_seconds()}
    if isinstance(o, datetime.date):
        return {'~date': o.isoformat()}
    if isinstance(o, datetime.time):
        return {'~time': o.isoformat()}
    if isinstance(o, datetime.timedelta):
        return {'~td': o.total_seconds()}
    if isinstance(o, (list, tuple)):
        return [jsonable(x, depth + 1) for x in o]
    if isinstance(o, dict):
        return {str(k): jsonable(v, depth + 1) for k, v in o.items()}
    if isinstance(o, (set, frozenset)):
        return {'~set': sorted((jsonable(x, depth + 1) for x in o), key=repr)}
    if isinstance(o, bytes):
        return {'~b': o.hex()}
    return {'~repr': '%s:%s' % (type(o).__name__, repr(o)[:200])}


class RunCtx:
    def __init__(self, seed, scratch, tier='quick', depth=0):
        self.seed = seed
        self.scratch = scratch
        self.tier = tier
        self.depth = depth
        self.events = []
        self.probes = {}
        self.fired = {}
        self.counters = {}
        self.nontrivial = False
        self.ntkey = None
        self.ntkeys = set()
        self.extra = {}
        self.sample = None
        self.notes = []
        self._sub_n = 0

    # ---- recording -------------------------------------------------------
    def log(self, *items):
        self.events.append(items if len(items) != 1 else items[0])

    def probe(self, name, n=1):
        self.probes[name] = self.probes.get(name, 0) + n

    def fault(self, kind, n=1):
        self.fired[kind] = self.fired.get(kind, 0) + n

    def count(self, name, n=1):
        self.counters[name] = self.counters.get(name, 0) + n

    def mark_nontrivial(self, key=None):
        self.nontrivial = True
        if key is not None:
            self.ntkey = key

    def nt(self, *key):
        """record one distinct non-trivial case (a run may contribute several)"""
        self.nontrivial = True
        self.ntkeys.add(json.dumps(jsonable(key), sort_keys=True))

    # ---- verdicts --------------------------------------------------------
    def violation(self, clause, key, message, **detail):
        raise Violation(clause, key, message, detail)

    def discard(self, why):
        raise Discard(why)

    def rng(self, *stream):
        return seeds.rng_for(self.seed, *stream)

    # ---- sub-runs --------------------------------------------------------
    def subrun(self, fn, payload, *, setup=None, wall=280, ambient=True):
        """Fork; in the child run ``fn(payload, subctx)``; return a dict:

        {'status': 'ok', 'value': ...} | {'status': 'exc', 'exc': {...}} |
        {'status': 'crash'} (simulated kill: exit CRASH_EXIT) |
        raises HarnessError (child died any other way / timed out).

        ``setup(subctx)`` is called first in the child (install seams etc.).
        The child's events / probes / fault counts are merged into this ctx.
        """
        self._sub_n += 1
        r, w = os.pipe()
        sys.stdout.flush()
        sys.stderr.flush()
        pid = os.fork()
        if pid == 0:
            code = 3
            try:
                os.close(r)
                signal.alarm(wall)
                sub = RunCtx(seeds.H(self.seed, 'sub', self._sub_n), self.scratch, self.tier, self.depth + 1)
                sub._pipe = w
                out = {}
                try:
                    if setup is not None:
                        setup(sub)
                    if ambient:
                        # threads the code under test starts by itself become tasks of a seeded scheduler (seams/ambient.py)
                        from ..seams import ambient as _amb
                        value = _amb.run(sub, lambda: fn(payload, sub))
                    else:
                        value = fn(payload, sub)
                    out = {'status': 'ok', 'value': value}
                except Violation as v:
                    out = {'status': 'violation', 'clause': v.clause, 'key': v.key,
                           'message': v.message, 'detail': v.detail}
                except Discard as d:
                    out = {'status': 'discard', 'why': str(d)}
                except HarnessError as e:
                    out = {'status': 'harness', 'why': str(e), 'tb': traceback.format_exc()}
                except BaseException as e:  # noqa
                    out = {'status': 'exc', 'exc': describe_exc(e), 'tb': traceback.format_exc()[-4000:]}
                    e = None
                # a process that survives a failed run (it caught the exception, or it is exiting
                # normally) finalises the abandoned generators and closes their files: do what it does
                import gc
                gc.collect()
                gc.collect()
                sub.flush_to_pipe(out)
                code = SUBRUN_OK_EXIT
            finally:
                os._exit(code)
        os.close(w)
        chunks = []
        while True:
            b = os.read(r, 1 << 16)
            if not b:
                break
            chunks.append(b)
        os.close(r)
        _, st = os.waitpid(pid, 0)
        data = b''.join(chunks)
        rec = None
        # the child may have streamed partial records (events flushed before a crash)
        out = None
        for line in data.split(b'\n'):
            if not line:
                continue
            try:
                rec = json.loads(line)
            except ValueError:
                continue   # torn last line of a killed child
            if rec.get('k') == 'ev':
                self.events.append(['sub%d' % self._sub_n] + rec['e'])
            elif rec.get('k') == 'stat':
                for name, n in rec['probes'].items():
                    self.probe(name, n)
                for name, n in rec['fired'].items():
                    self.fault(name, n)
                for name, n in rec['counters'].items():
                    self.count(name, n)
            elif rec.get('k') == 'out':
                out = rec['out']
        if os.WIFEXITED(st) and os.WEXITSTATUS(st) == CRASH_EXIT:
            self.events.append(['sub%d' % self._sub_n, 'CRASHED'])
            return {'status': 'crash'}
        if os.WIFSIGNALED(st):
            raise HarnessError('sub-run killed by signal %d (watchdog?)' % os.WTERMSIG(st))
        if not os.WIFEXITED(st) or os.WEXITSTATUS(st) != SUBRUN_OK_EXIT or out is None:
            raise HarnessError('sub-run exited abnormally: status=%r' % (st,))
        if out['status'] == 'violation':
            raise Violation(out['clause'], out['key'], out['message'], out['detail'])
        if out['status'] == 'discard':
            raise Discard(out['why'])
        if out['status'] == 'harness':
            raise HarnessError(out['why'] + '\n' + out.get('tb', ''))
        return out

    # used by sub-run children: stream events so that what happened before a
    # simulated kill is part of the history
    _pipe = None
    _flushed = 0

    def flush_events(self):
        if self._pipe is None:
            return
        buf = []
        for e in self.events[self._flushed:]:
            buf.append(json.dumps({'k': 'ev', 'e': jsonable(list(e) if isinstance(e, (list, tuple)) else [e])}))
        self._flushed = len(self.events)
        buf.append(json.dumps({'k': 'stat', 'probes': self.probes, 'fired': self.fired, 'counters': self.counters}))
        self.probes, self.fired, self.counters = {}, {}, {}
        _write_all(self._pipe, ('\n'.join(buf) + '\n').encode())

    def flush_to_pipe(self, out):
        self.flush_events()
        _write_all(self._pipe, (json.dumps({'k': 'out', 'out': jsonable_out(out)}) + '\n').encode())


def jsonable_out(out):
    try:
        json.dumps(out)
        return out
    except (TypeError, ValueError):
        return jsonable(out)


def _write_all(fd, data):
    while data:
        n = os.write(fd, data)
        data = data[n:]


def describe_exc(e):
    chain = []
    seen = set()
    cur = e
    while cur is not None and id(cur) not in seen and len(chain) < 8:
        seen.add(id(cur))
        chain.append({'type': type(cur).__module__ + '.' + type(cur).__name__, 'str': str(cur)[:500],
                      'marker': getattr(cur, '_dfsim_marker', None)})
        cur = cur.__cause__ or cur.__context__
    d = {'type': chain[0]['type'], 'str': chain[0]['str'], 'chain': chain}
    cause = getattr(e, 'cause', None)
    if cause is not None:
        d['cause'] = {'type': type(cause).__module__ + '.' + type(cause).__name__, 'str': str(cause)[:500],
                      'marker': getattr(cause, '_dfsim_marker', None)}
        d['processor_name'] = getattr(e, 'processor_name', None)
        d['processor_position'] = getattr(e, 'processor_position', None)
    return d
