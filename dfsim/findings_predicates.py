"""Narrow predicates for entries of /verif/known_findings.json.

Each takes (scenario, violation_record) and must hold only for the specific
input / call site / history the finding describes.
"""


def _steps(sc):
    out = []

    def walk(steps):
        for sp in steps or []:
            out.append(sp.get('step'))
            if sp.get('step') == 'nest':
                walk(sp.get('steps'))
    walk((sc or {}).get('steps'))
    return out


def c01_dump_counters(sc, rec):
    """Descriptors of the lazy and the step-by-step evaluation differ *only* in the counters (bytes / hash /
    count_of_rows) a file dumper writes into its descriptor after its rows have passed (the check assigns the key
    'dump-counters' only when the descriptors are equal once exactly those keys are removed), and the pipeline
    has a file dumper followed by at least one more step."""
    if rec.get('clause') != 'schedule-equivalence:descriptor' or rec.get('key') != 'dump-counters':
        return False
    st = _steps(sc)
    idx = [i for i, s in enumerate(st) if s in ('dump_to_path', 'dump_to_zip')]
    return bool(idx) and idx[0] < len(st) - 1
