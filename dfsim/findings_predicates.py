"""Narrow predicates for entries of /verif/known_findings.json.

Each takes (scenario, violation_record) and must hold only for the specific
input / call site / history the finding describes.
"""
