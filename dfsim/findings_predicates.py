"""Narrow predicates for entries of /verif/known_findings.json.

Each takes (scenario, violation_record) and must hold only for the specific
input / call site / history the finding describes.
"""


def _steps(sc):
    out = []

    def walk(steps):
        for sp in steps or []:
            out.append(sp.get('step'))
            if sp.get('step') == 'nest':
                walk(sp.get('steps'))
    walk((sc or {}).get('steps'))
    return out


def c01_dump_counters(sc, rec):
    """Descriptors of the lazy and the step-by-step evaluation differ *only* in the counters (bytes / hash /
    count_of_rows) a file dumper writes into its descriptor after its rows have passed (the check assigns the key
    'dump-counters' only when the descriptors are equal once exactly those keys are removed), and the pipeline
    has a file dumper followed by at least one more step."""
    if rec.get('clause') != 'schedule-equivalence:descriptor' or rec.get('key') != 'dump-counters':
        return False
    st = _steps(sc)
    idx = [i for i, s in enumerate(st) if s in ('dump_to_path', 'dump_to_zip')]
    return bool(idx) and idx[0] < len(st) - 1


def c09_stats_bytes_include_descriptor(sc, rec):
    """stats['bytes'] returned by process() exceeds the bytes recorded in the written descriptor by exactly the size of
    datapackage.json itself (the dumper adds the descriptor's own size to its counter after the descriptor was serialised)."""
    d = rec.get('detail') or {}
    return (rec.get('clause') == 'stats-vs-descriptor' and rec.get('key') == 'bytes+descriptor' and d.get('stat_key') == 'bytes'
            and isinstance(d.get('stat'), int) and isinstance(d.get('recorded'), int) and d['stat'] - d['recorded'] == d.get('desc_size'))


def c09_excel_hash_depends_on_clock(sc, rec):
    """excel format only, and the two dumps happened at different simulated instants or under different time zones:
    the xlsx container embeds created / modified stamps and zip entry times, so the bytes (and the hash) differ."""
    d = rec.get('detail') or {}
    if rec.get('clause') != 'repeatable-hash' or rec.get('key') != 'excel-clock':
        return False
    if ((sc or {}).get('opts') or {}).get('format') != 'excel':
        return False
    clock = d.get('clock') or [None, None]
    return clock[0] != clock[1] or bool(d.get('tz2'))


def c03_json_field_order(sc, rec):
    """JSON format, a non-empty resource whose field names are not in alphabetical order, and the load() round trip
    (not the independent decode) fails: load() raised a cast error or returned values paired with the wrong fields."""
    d = rec.get('detail') or {}
    if rec.get('clause') not in ('load-raised', 'roundtrip:values') or not d.get('json_nonalphabetical'):
        return False
    if ((sc or {}).get('opts') or {}).get('format') != 'json':
        return False
    return any(t.get('rows') and [f['name'] for f in t['fields']] != sorted(f['name'] for f in t['fields']) for t in (sc or {}).get('tables', []))


def c03_crlf_in_csv_cell(sc, rec):
    """CSV format, a string cell containing CR LF: load() returns it with a bare LF (the written file holds the CR LF:
    the independent decode agrees with what was dumped)."""
    d = rec.get('detail') or {}
    return (rec.get('clause') == 'roundtrip:values' and rec.get('key') == 'string' and bool(d.get('crlf_to_lf'))
            and ((sc or {}).get('opts') or {}).get('format', 'csv') == 'csv')


def c11_count_with_name_counts_nulls(sc, rec):
    """A `count` aggregate given an explicit source field `name` returns the number of all matching source rows
    although the documentation says it counts the non-null values of that field (the check assigns the key
    'counts-nulls' only when the observed value equals the count of all matching rows and nothing else differs)."""
    d = rec.get('detail') or {}
    if rec.get('clause') != 'aggregate:count' or rec.get('key') != 'counts-nulls' or not d.get('counts_all'):
        return False
    f = (((sc or {}).get('spec') or {}).get('fields') or {}).get(d.get('field')) or {}
    return f.get('aggregate') == 'count' and 'name' in f


def c16_concatenate_empty_row(sc, rec):
    """concatenate aborts with its own assertion 'Got an empty row after concatenation' for a source row whose mapped
    cells are all null (the pipeline has a concatenate step and nothing else raised)."""
    d = rec.get('detail') or {}
    return (rec.get('clause') == 'raised' and str(rec.get('key', '')).endswith(':empty-row-after-concatenation') and bool(d.get('empty_row_assertion'))
            and 'concatenate' in _steps(sc))


def c05_dumper_casts_values(sc, rec):
    """A file dumper placed mid-pipeline validates the rows it passes on: values that are not yet in the native form of
    their declared type ('' in a string field with missingValues [''], a float in a number field) continue downstream
    cast.  The check assigns the key only when the stream at the dumper's position is not a fixed point of the schema
    cast AND the run with the dumper is row-for-row identical to the run with a validate() step in its place."""
    d = rec.get('detail') or {}
    return (rec.get('clause') == 'transparency:rows' and rec.get('key') == 'dumper-casts-values' and d.get('equals_validate') is True
            and d.get('observer') in ('dump_to_path', 'dump_to_zip') and ((sc or {}).get('observer') or {}).get('step') == d.get('observer'))


def c05_consumer_stops_early(sc, rec):
    """The suffix contains a user rows-function that stops pulling a resource before its end (the generated `truncate`
    step, itertools.islice): the rows it never asks for never pass the observer, so what the observer persisted /
    reported is incomplete (or, for dump_to_path, its descriptor lists data files that were never written)."""
    suffix = (sc or {}).get('suffix') or []
    if not any(sp.get('step') == 'truncate' for sp in suffix):
        return False
    return rec.get('clause') in ('completeness:resources', 'completeness:rows', 'finalizer:early')
