"""Self-tests of the simulator itself.

selftest-determinism [--runs N]   same run seeds twice: 16 workers vs 1..3 workers, PYTHONHASHSEED 0 vs 12345
                                  (fresh interpreters), accelerator on vs off; event-log digests must agree.
selftest-mutants                  every patch under selftest/mutants/<ID>-*.patch and seeded/<id>/patch.diff must make
                                  its property's quick check exit 1 on a scratch copy; the clean tree must exit 0.
"""
import json
import os
import subprocess
import sys

HERE = os.path.dirname(os.path.dirname(os.path.abspath(__file__)))


def _digests(pid, n, tier, seed, env_extra, workers):
    env = dict(os.environ)
    env.update(env_extra)
    env['DFSIM_DIGEST_DUMP'] = '1'
    env.pop('PYTHONHASHSEED', None)
    p = subprocess.run([os.path.join(HERE, 'check'), pid, '--tier', tier, '--runs', str(n), '--workers', str(workers),
                        '--digests'], capture_output=True, text=True, env=env, timeout=3600)
    out = {}
    for ln in p.stdout.splitlines():
        if ln.startswith('DIGEST '):
            _, i, d, v, ne = ln.split()
            out[int(i)] = (d, v, ne)
    return out, p


def determinism(a, seed):
    from dfsim import cli
    props = [a.only] if getattr(a, 'only', None) else cli.PROPS
    n = a.runs or 48
    bad = 0
    total = 0
    for pid in props:
        if not os.path.exists(os.path.join(HERE, 'dfsim', 'props', pid.lower() + '.py')):
            continue
        configs = [
            ('w16,hash0', {'DFSIM_HASHSEED': '0'}, 16),
            ('w2,hash0', {'DFSIM_HASHSEED': '0'}, 2),
            ('w16,hash12345', {'DFSIM_HASHSEED': '12345'}, 16),
            ('w5,hash0,noaccel', {'DFSIM_HASHSEED': '0', 'DFSIM_NO_ACCEL': '1', 'DFSIM_RUN_WALL': '1200'}, 5),
        ]
        base = None
        for name, env, w in configs:
            d, p = _digests(pid, n, a.tier, seed, env, w)
            if not d:
                print('HARNESS-ERROR %s config %s produced no digests: %s' % (pid, name, p.stdout[-500:] + p.stderr[-500:]))
                bad += 1
                continue
            if base is None:
                base = d
                total += len(d)
                continue
            for i in sorted(base):
                if i in d and d[i] != base[i]:
                    bad += 1
                    print('NONDETERMINISM %s run %d: %s -> %s vs %s' % (pid, i, name, d[i], base[i]))
        print('%s: %d seeds x %d configurations compared' % (pid, len(base or {}), len(configs)))
    print('selftest-determinism: %d mismatches over %d seeds' % (bad, total))
    return 2 if bad else 0


def mutants(a, seed):
    import glob
    from concurrent.futures import ThreadPoolExecutor
    pats = sorted(glob.glob(os.path.join(HERE, 'selftest', 'mutants', '*.patch')) +
                  glob.glob(os.path.join(HERE, 'seeded', '*', 'patch.diff')))
    jobs = []
    for p in pats:
        if p.endswith('patch.diff'):
            meta = json.load(open(os.path.join(os.path.dirname(p), 'meta.json')))
            pids = meta.get('caught_by') or [meta['property']]
            name = 'seeded/' + os.path.basename(os.path.dirname(p))
            if meta.get('neutralised_by'):
                continue
        else:
            name = os.path.basename(p)[:-6]
            pids = [name.split('-')[0]]
        if getattr(a, 'only', None) and a.only not in pids and a.only not in name:
            continue
        for pid in pids:
            jobs.append((name, pid, p))

    def run(job):
        name, pid, p = job
        env = dict(os.environ)
        env['DFSIM_WORKERS'] = env.get('DFSIM_WORKERS', '8')
        r = subprocess.run([os.path.join(HERE, 'tools', 'with_patch.sh'), p, os.path.join(HERE, 'check'), pid,
                            '--tier', a.tier, '--no-evidence', '--no-shrink'], capture_output=True, text=True, timeout=7200, env=env)
        caught = r.returncode == 1 and 'VIOLATION property=%s' % pid in r.stdout
        first = ''
        total = 0
        import re
        for ln in r.stdout.splitlines():
            if ln.strip().startswith('clause='):
                if not first:
                    first = ln.strip()[:160]
                m = re.search(r' runs=(\d+):', ln)
                total += int(m.group(1)) if m else 0
        return name, pid, caught, r.returncode, ('violating-runs=%d ' % total) + first
    bad = 0
    rows = []
    with ThreadPoolExecutor(max_workers=int(os.environ.get('DFSIM_MUTANT_JOBS', '3'))) as ex:
        for name, pid, caught, rc, first in ex.map(run, jobs):
            rows.append((name, pid, caught))
            print('%-44s %s %s  %s' % (name, pid, 'caught' if caught else 'MISSED (exit %d)' % rc, first))
            sys.stdout.flush()
            if not caught:
                bad += 1
    print('selftest-mutants: %d/%d caught' % (len(rows) - bad, len(rows)))
    return 1 if bad else 0


def replay_selftest(a, seed):
    """For a few calibration mutants: find a violation WITH minimisation, then replay the minimised file twice in fresh
    processes on the mutant tree (must reproduce the same clause and the same event-log digest) and once on the clean tree
    (must not reproduce)."""
    import re
    import shutil
    import tempfile
    picks = ['C08-no-active-suffix', 'C18-fetcher-first-end-marker', 'C19-descriptor-first', 'C04-descriptor-in-finally', 'C12-no-sign-inversion']
    bad = 0
    for name in picks:
        if getattr(a, 'only', None) and a.only not in name:
            continue
        pid = name.split('-')[0]
        patch = os.path.join(HERE, 'selftest', 'mutants', name + '.patch')
        wp = os.path.join(HERE, 'tools', 'with_patch.sh')
        r = subprocess.run([wp, patch, os.path.join(HERE, 'check'), pid, '--tier', 'quick', '--no-evidence', '--runs', '200'], capture_output=True, text=True, timeout=3600)
        m = re.search(r'VIOLATION property=%s replay=(\S+)' % pid, r.stdout)
        if not m:
            print('%-36s no violation found within 200 runs (exit %d)' % (name, r.returncode))
            bad += 1
            continue
        rp = m.group(1)
        keep = tempfile.mkdtemp(prefix='dfsim-replay-')
        rp2 = os.path.join(keep, os.path.basename(rp))
        shutil.copy(rp, rp2)
        outs = []
        for _ in range(2):
            q = subprocess.run([wp, patch, os.path.join(HERE, 'check'), pid, '--replay', rp2], capture_output=True, text=True, timeout=600)
            outs.append((q.returncode, re.findall(r'verdict=(\S+) clause=(\S+) key=(\S+) digest=(\S+)', q.stdout)))
        clean = subprocess.run([os.path.join(HERE, 'check'), pid, '--replay', rp2], capture_output=True, text=True, timeout=600)
        info = json.load(open(rp2))
        ok = (outs[0] == outs[1] and outs[0][0] == 1 and outs[0][1] and outs[0][1][0][1] == info['violation']['clause'] and clean.returncode == 0)
        print('%-36s replay on mutant: %s x2 identical=%s; on clean tree: exit %d; minimised %d -> %d bytes  %s' % (
            name, outs[0][1][0] if outs[0][1] else outs[0], outs[0] == outs[1], clean.returncode, info['shrink'].get('size_before', 0), info['shrink'].get('size_after', 0), 'OK' if ok else 'FAILED'))
        shutil.rmtree(keep, ignore_errors=True)
        if not ok:
            bad += 1
    print('selftest-replay: %s' % ('ok' if not bad else '%d failed' % bad))
    return 1 if bad else 0


def main(what, a, seed):
    if what == 'selftest-replay':
        return replay_selftest(a, seed)
    if what == 'selftest-determinism':
        return determinism(a, seed)
    if what == 'selftest-mutants':
        return mutants(a, seed)
    print('unknown selftest', what)
    return 2
