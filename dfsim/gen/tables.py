"""Seeded table generator.

A table spec is plain JSON:

    {"name": "res_1", "fields": [{"name": "id", "type": "integer"}, ...],
     "rows": [[cell, ...], ...]}

Cells are stored in a JSON *encoding* of typed values (see enc/dec) so that a
scenario / replay file is self-contained.  Column 0 is always the provenance id
``_id`` (integer, unique across the whole scenario) unless ``ids=False``.
"""
import datetime
import decimal

SIZES_SMALL = [0, 1, 2, 3, 5, 8, 12]
WORDS = ['a', 'b', 'ab', 'a b', 'A', 'é', 'זה', 'x,y', 'q"q', 'line\nbreak', ' lead', 'trail ', '0', '-1', '', 'null',
         'a/', 'a!', 'a ', 'aa', '\U0001F600', 'tab\tx', "it's", '{}', '[1]', '1e3', 'True']
SIMPLE_WORDS = ['a', 'b', 'ab', 'abc', 'A', 'é', 'zz', 'x y', '0', 'q', 'hello', 'w1', 'w2']


def enc(v):
    """typed python value -> JSON-able"""
    if v is None or isinstance(v, (bool, int, str)):
        return v
    if isinstance(v, float):
        return {'f': repr(v)}
    if isinstance(v, decimal.Decimal):
        return {'d': str(v)}
    if isinstance(v, datetime.datetime):
        off = v.utcoffset()
        return {'dt': v.replace(tzinfo=None).isoformat(), 'off': None if off is None else int(off.total_seconds()),
                'tzname': v.tzname()}
    if isinstance(v, datetime.date):
        return {'date': v.isoformat()}
    if isinstance(v, datetime.time):
        return {'time': v.isoformat()}
    if isinstance(v, datetime.timedelta):
        return {'td': v.total_seconds()}
    if isinstance(v, list):
        return {'l': [enc(x) for x in v]}
    if isinstance(v, dict):
        return {'o': {k: enc(x) for k, x in v.items()}}
    raise TypeError(type(v))


def dec(j):
    if j is None or isinstance(j, (bool, int, str)):
        return j
    if isinstance(j, list):          # tolerate bare lists (shrinker)
        return [dec(x) for x in j]
    if 'f' in j:
        return float(j['f'])
    if 'd' in j:
        return decimal.Decimal(j['d'])
    if 'dt' in j:
        d = datetime.datetime.fromisoformat(j['dt'])
        if j.get('off') is not None:
            tz = datetime.timezone(datetime.timedelta(seconds=j['off']), j.get('tzname')) if j.get('tzname') \
                else datetime.timezone(datetime.timedelta(seconds=j['off']))
            d = d.replace(tzinfo=tz)
        return d
    if 'date' in j:
        return datetime.date.fromisoformat(j['date'])
    if 'time' in j:
        return datetime.time.fromisoformat(j['time'])
    if 'td' in j:
        return datetime.timedelta(seconds=j['td'])
    if 'l' in j:
        return [dec(x) for x in j['l']]
    if 'o' in j:
        return {k: dec(x) for k, x in j['o'].items()}
    raise ValueError(j)


def gen_value(rng, typ, words=SIMPLE_WORDS, null_p=0.1):
    if rng.random() < null_p:
        return None
    if typ == 'integer':
        return rng.choice([0, 1, -1, 2, 7, 10, 42, 100, -100, 2**31, 10**12, rng.randrange(-1000, 1000)])
    if typ == 'string':
        return rng.choice(words)
    if typ == 'boolean':
        return rng.random() < 0.5
    if typ == 'number':
        if rng.random() < 0.3:
            return decimal.Decimal(rng.choice(['1.5', '1.50', '100', '1E+2', '100.0']))
        return rng.choice([decimal.Decimal('0'), decimal.Decimal('1.5'), decimal.Decimal('-2.25'),
                           decimal.Decimal('3.14159265358979323846'), decimal.Decimal('1E+3'),
                           decimal.Decimal('100'), decimal.Decimal('-0.001'),
                           # equal as numbers, different as values (scale): 1.5 / 1.50, 100 / 1E+2 / 100.0
                           decimal.Decimal('1.50'), decimal.Decimal('1E+2'), decimal.Decimal('100.0'),
                           decimal.Decimal(rng.randrange(-10**6, 10**6)) / 1000])
    if typ == 'float':
        return rng.choice([0.0, 1.5, -2.25, 1e10, 3.25, rng.randrange(-10**6, 10**6) / 64.0])
    if typ == 'date':
        return datetime.date(rng.choice([1999, 2000, 2020, 1970, 2024]), rng.randrange(1, 13), rng.randrange(1, 29))
    if typ == 'time':
        return datetime.time(rng.randrange(24), rng.randrange(60), rng.randrange(60))
    if typ == 'datetime':
        return datetime.datetime(rng.choice([1999, 2000, 2020, 1970, 2024]), rng.randrange(1, 13), rng.randrange(1, 29),
                                 rng.randrange(24), rng.randrange(60), rng.randrange(60))
    if typ == 'year':
        return rng.choice([1, 999, 1970, 2020, 2024])
    if typ == 'array':
        return [rng.choice([1, 'x', None, 2.5, True]) for _ in range(rng.randrange(0, 4))]
    if typ == 'object':
        return {rng.choice('abc'): rng.choice([1, 'x', None, [1, 2], {'n': 1}]) for _ in range(rng.randrange(0, 3))}
    raise ValueError(typ)


def gen_table(rng, name, nrows, types, id_start=0, ids=True, field_names=None, words=SIMPLE_WORDS, null_p=0.1,
              ensure_typed=True):
    """types: list of Table Schema type names for the non-id columns."""
    fields = []
    if ids:
        fields.append({'name': '_id', 'type': 'integer'})
    pool = field_names or ['a', 'b', 'c', 'd', 'e', 'f', 'g']
    for i, t in enumerate(types):
        fields.append({'name': pool[i], 'type': t})
    rows = []
    for r in range(nrows):
        row = []
        if ids:
            row.append(id_start + r)
        for t in types:
            row.append(enc(gen_value(rng, t, words, null_p)))
        rows.append(row)
    if ensure_typed and nrows:
        # make sure iterable-type inference sees at least one non-null per column in row 0
        for ci, t in enumerate(types):
            col = ci + (1 if ids else 0)
            if rows[0][col] is None:
                rows[0][col] = enc(gen_value(rng, t, words, 0.0))
    return {'name': name, 'fields': fields, 'rows': rows}


def rows_of(table):
    names = [f['name'] for f in table['fields']]
    return [dict(zip(names, (dec(c) for c in row))) for row in table['rows']]


def total_rows(tables):
    return sum(len(t['rows']) for t in tables)
