"""Pipeline generation and execution helpers (shared by C01, C04, C05, C06, C16).

Generation runs the *real* package phase of every prefix to obtain the descriptor the next step's parameters are
drawn against, so generated pipelines are well-typed by construction.  It therefore must run in a throw-away
process (a sub-run): see ``expand``.
"""
from . import steps as ST
from . import tables as T

SIZES = [0, 1, 1, 2, 2, 3, 3, 5, 7, 12]
BIG_SIZES = [99, 100, 101, 150]


def gen_tables(rng, ntab=None, sizes=None, big_p=0.08, types=('string', 'integer', 'boolean', 'number', 'date'), nested_p=0.0):
    ntab = ntab or rng.choice([1, 1, 2, 2, 3])
    tabs = []
    idc = 0
    for i in range(ntab):
        n = rng.choice(BIG_SIZES) if rng.random() < big_p else rng.choice(sizes or SIZES)
        k = rng.randrange(1, 5)
        # overlapping field names across resources (so that concatenate / join have something to work with)
        tt = [rng.choice(types) for _ in range(k)]
        if nested_p and rng.random() < nested_p:
            tt[rng.randrange(k)] = rng.choice(['array', 'object'])
        names = []
        for j, t in enumerate(tt):
            names.append('%s%d' % (t[0], j))          # e.g. s0, i1, b2 : same name => same type across resources
        t = T.gen_table(rng, 'res_%d' % (i + 1), n, tt, id_start=idc, field_names=names, null_p=0.12)
        idc += max(n, 1) + 3
        tabs.append(t)
    return tabs


def source_links(tables, kinds=None):
    out = []
    for i, t in enumerate(tables):
        rows = T.rows_of(t)
        k = (kinds or [])[i] if kinds and i < len(kinds) else 'list'
        if k == 'gen':
            out.append((r for r in rows))           # one-shot generator
        elif k == 'iter':
            out.append(iter(rows))
        else:
            out.append(rows)
    return out


def build_links(sc, env, upto=None):
    links = source_links(sc['tables'], sc.get('source_kinds'))
    for sp in sc['steps'][:upto]:
        links.extend(ST.build(sp, env))
    return links


def describe(sc, env, upto=None):
    from dataflows import Flow
    ds = Flow(*build_links(sc, env, upto)).datastream()
    return ds.dp.descriptor


def gen_pipeline(rng, tables, nsteps, tags=None, exclude=(), stats=None, sc=None, g=None, source_kinds=None):
    """Incrementally draw steps against the real descriptor.  Returns the scenario dict.  With ``sc`` given,
    extends that scenario by up to nsteps more steps (continuing its name counters through ``g``)."""
    if sc is None:
        sc = {'tables': tables, 'steps': []}
        if source_kinds:
            sc['source_kinds'] = source_kinds
    g = g or ST.G()
    g.tags, g.exclude = tags, set(exclude)
    stats = stats if stats is not None else {}
    try:
        desc = describe(sc, {'calls': {}})
    except Exception:  # noqa
        stats['bad-prefix'] = stats.get('bad-prefix', 0) + 1
        raise
    attempts = 0
    added = 0
    while added < nsteps and attempts < nsteps * 4:
        attempts += 1
        d = ST.D(desc)
        if not d.res:
            break
        spec = ST.gen_step(rng, d, g)
        if spec is None:
            continue
        sc['steps'].append(spec)
        try:
            desc = describe(sc, {'calls': {}})
            names = [r['name'] for r in desc.get('resources', [])]
            if len(set(names)) != len(names) and spec['step'] != 'iterable':
                # e.g. sources() or a rename re-using a name: not a well-formed package (unique names are C02's business).
                # An unnamed iterable must pick a free name itself (fixed defect c45c7a1): that candidate is kept, for the check to judge.
                raise ValueError('duplicate resource names')
            added += 1
        except Exception as e:  # noqa  -> ill-typed candidate, discard
            sc['steps'].pop()
            stats['ill-typed-step'] = stats.get('ill-typed-step', 0) + 1
            stats['ill:' + spec['step']] = stats.get('ill:' + spec['step'], 0) + 1
            if spec['step'] == 'user' and len(stats.setdefault('ill-user-detail', [])) < 3:
                # a user callable of the right arity is well-typed by construction (it only fills its own marker field):
                # the checks report its rejection instead of silently generating around it
                c = getattr(e, 'cause', None) or e
                stats['ill-user-detail'].append([spec.get('param'), spec.get('kind'), type(c).__name__, str(c)[:160]])
                if 'ill-user-candidate' not in stats:
                    import copy
                    stats['ill-user-candidate'] = {'prefix': copy.deepcopy(sc['steps']), 'spec': copy.deepcopy(spec)}
    sc['_g'] = g.n
    return sc


def results_of(flow_results):
    from ..core.ctx import jsonable
    rows, dp, stats = flow_results
    return {'rows': jsonable(rows), 'dp': jsonable(dp.descriptor), 'stats': jsonable(stats)}
