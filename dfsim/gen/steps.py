"""The typed step alphabet (DESIGN.md appendix A).

Each entry:  gen_<kind>(rng, D, G) -> step spec (plain JSON) or None when not applicable to the current
descriptor D;  build(spec, env) -> a fresh link object.  A scenario is rebuilt from its specs for every
variant that is executed, so no iterator or stateful processor object is ever reused.

D is a light view of the *real* descriptor reached so far (obtained by running the real package phase of the
prefix): D.res = [{'name', 'fields': [(name, type)], 'pk': [...]}].
G is the generation context: fresh-name counters, scratch-relative output names, tag filter.
"""
import functools

TAGS = {
    'add_field': {'rowwise', 'stream'},
    'add_computed_field': {'rowwise', 'stream'},
    'delete_fields': {'rowwise', 'stream', 'discard-columns'},
    'select_fields': {'rowwise', 'stream', 'discard-columns'},
    'rename_fields': {'rowwise', 'stream'},
    'find_replace': {'rowwise', 'stream'},
    'set_type': {'rowwise', 'stream'},
    'validate': {'rowwise', 'stream', 'observer'},
    'filter_rows': {'stream', 'discard-rows'},
    'dedup': {'stream', 'discard-rows'},
    'unpivot': {'stream', 'expand'},
    'concatenate': {'stream', 'restructure', 'discard-resources'},
    'duplicate': {'buffer', 'restructure'},
    'delete_resource': {'restructure', 'discard-resources', 'stream'},
    'update_resource': {'restructure', 'metadata', 'stream'},
    'update_schema': {'metadata', 'stream'},
    'update_package': {'metadata', 'stream'},
    'set_primary_key': {'metadata', 'stream'},
    'sort_rows': {'buffer'},
    'join': {'buffer', 'restructure', 'discard-resources'},
    'join_with_self': {'buffer', 'restructure'},
    'printer': {'observer', 'stream'},
    'dump_to_path': {'observer', 'stream'},
    'dump_to_zip': {'observer', 'stream'},
    'stream': {'observer', 'stream'},
    'checkpoint': {'observer', 'stream'},
    'finalizer': {'observer', 'stream'},
    'update_stats': {'observer', 'stream'},
    'user': {'user', 'stream'},
    'nested_edit': {'user', 'stream', 'rowwise'},
    'truncate': {'truncating'},
    'bump': {'user', 'stream', 'rowwise'},
    'iterable': {'source', 'restructure', 'stream'},
    'sources': {'source', 'restructure', 'stream'},
    'load_tuple': {'source', 'restructure', 'stream'},
}

NUMERIC = ('integer', 'number')
CONST = {'integer': [0, 5, -3], 'string': ['k', 'z z', ''], 'boolean': [True, False], 'number': [1.5, 2.0], 'any': [None]}


class D:
    def __init__(self, descriptor):
        self.res = []
        for r in descriptor.get('resources', []):
            sch = r.get('schema', {}) or {}
            self.res.append({'name': r['name'], 'fields': [(f['name'], f.get('type', 'any')) for f in sch.get('fields', [])],
                             'pk': list(sch.get('primaryKey', []) or []) if not isinstance(sch.get('primaryKey'), str) else [sch['primaryKey']]})

    def names(self):
        return [r['name'] for r in self.res]

    def get(self, name):
        for r in self.res:
            if r['name'] == name:
                return r
        return None


class G:
    def __init__(self, tags=None, exclude=()):
        self.n = 0
        self.tags = tags
        self.exclude = set(exclude)

    def fresh(self, prefix):
        self.n += 1
        return '%s%d' % (prefix, self.n)


def selector(rng, d, names=None, allow_all=True):
    """-> (selector value as JSON, list of selected resource names)"""
    allnames = d.names()
    pool = names if names is not None else allnames
    if not pool:
        return None, []
    r = rng.random()
    if allow_all and names is None and r < 0.3:
        return None, list(allnames)
    target = rng.choice(pool)
    if r < 0.55:
        return target, [target]                      # regex that is a plain name (names are regex-safe words)
    if r < 0.75:
        return [target], [target]
    if r < 0.9:
        idx = allnames.index(target)
        if allnames.count(target) == 1:
            return (idx if rng.random() < 0.5 else idx - len(allnames)), [target]
        return [target], [target]
    sub = [n for n in pool if rng.random() < 0.6] or [target]
    return sub, sub


def _fields(d, sel_names, pred=lambda n, t: True):
    """fields (name,type) common to all selected resources satisfying pred"""
    out = None
    for nm in sel_names:
        r = d.get(nm)
        fs = [(n, t) for n, t in r['fields'] if pred(n, t)]
        out = fs if out is None else [f for f in out if f in fs]
    return out or []


# ------------------------------------------------------------------ generators
def gen_add_field(rng, d, g):
    sel, names = selector(rng, d)
    if not names:
        return None
    t = rng.choice(['integer', 'string', 'boolean', 'number'])
    return {'step': 'add_field', 'name': g.fresh('nf'), 'type': t, 'default': rng.choice(CONST[t] + [None]), 'resources': sel}


def gen_add_computed_field(rng, d, g):
    sel, names = selector(rng, d)
    if not names:
        return None
    nums = _fields(d, names, lambda n, t: t in NUMERIC and n != '_id')
    anyf = _fields(d, names, lambda n, t: t in ('integer', 'string', 'number', 'boolean'))
    op = rng.choice(['sum', 'avg', 'max', 'min', 'multiply', 'constant', 'join', 'format'])
    spec = {'step': 'add_computed_field', 'target': g.fresh('cf'), 'operation': op, 'resources': sel}
    if op in ('sum', 'avg', 'max', 'min', 'multiply'):
        # aggregate of zero non-null values raises for most operations: keep '_id' (never null) among the sources
        idf = _fields(d, names, lambda n, t: n == '_id' and t == 'integer')
        if not idf:
            return None
        spec['source'] = ['_id'] + [n for n, t in nums if rng.random() < 0.5][:2]
    elif op == 'constant':
        spec['with'] = rng.choice(['c', 'x y'])
    elif op == 'join':
        if not anyf:
            return None
        spec['source'] = [n for n, t in anyf if rng.random() < 0.6][:3] or [anyf[0][0]]
        spec['with'] = rng.choice(['-', ', '])
    elif op == 'format':
        if not anyf:
            return None
        spec['with'] = 'v={%s}' % rng.choice(anyf)[0]
    return spec


def gen_delete_fields(rng, d, g):
    sel, names = selector(rng, d)
    fs = _fields(d, names, lambda n, t: n != '_id')
    if not fs:
        return None
    # never delete the last non-id field of a resource that would be left with no fields at all
    pick = [rng.choice(fs)[0]]
    return {'step': 'delete_fields', 'fields': pick, 'resources': sel, 'regex': rng.random() < 0.5}


def gen_select_fields(rng, d, g):
    sel, names = selector(rng, d)
    fs = _fields(d, names)
    if not fs or ('_id', 'integer') not in fs:
        return None
    keep = ['_id'] + [n for n, t in fs if n != '_id' and rng.random() < 0.6]
    rng.shuffle(keep)
    return {'step': 'select_fields', 'fields': keep, 'resources': sel, 'regex': rng.random() < 0.5}


def gen_rename_fields(rng, d, g):
    sel, names = selector(rng, d)
    fs = _fields(d, names, lambda n, t: n != '_id')
    if not fs:
        return None
    old = rng.choice(fs)[0]
    return {'step': 'rename_fields', 'fields': {old: g.fresh('rn')}, 'resources': sel, 'regex': rng.random() < 0.5}


def gen_find_replace(rng, d, g):
    sel, names = selector(rng, d)
    fs = _fields(d, names, lambda n, t: t == 'string')
    if not fs:
        return None
    # find_replace str()s the value: a null becomes 'None' - only use on a field that add_field made non-null? keep it honest:
    # the step is what it is; both schedules of C01 see the same thing.
    return {'step': 'find_replace', 'fields': [{'name': rng.choice(fs)[0], 'patterns': [{'find': rng.choice(['a', 'b', '^w', 'z+']), 'replace': rng.choice(['X', '', 'aa'])}]}],
            'resources': sel}


def gen_set_type(rng, d, g):
    sel, names = selector(rng, d, allow_all=True)
    if sel is None:
        sel = -1
        names = [d.names()[-1]]
    fs = _fields(d, names, lambda n, t: t in ('integer', 'date', 'boolean', 'string', 'number') and n != '_id')
    if not fs:
        return None
    n, t = rng.choice(fs)
    new = {'integer': rng.choice(['integer', 'number', 'any']), 'number': rng.choice(['number', 'any']), 'date': 'date', 'boolean': rng.choice(['boolean', 'any']),
           'string': rng.choice(['string', 'any'])}[t]
    spec = {'step': 'set_type', 'name': n, 'type': new, 'resources': sel}
    if rng.random() < 0.3:
        spec['title'] = 'T ' + n
    return spec


def gen_validate(rng, d, g):
    return {'step': 'validate'}


def gen_filter_rows(rng, d, g):
    sel, names = selector(rng, d)
    if not names or not _fields(d, names, lambda n, t: n == '_id' and t == 'integer'):
        return None
    return {'step': 'filter_rows', 'cond': rng.choice(['even', 'odd', 'lt3', 'none', 'all', 'mod3']), 'resources': sel}


def gen_dedup(rng, d, g):
    sel, names = selector(rng, d)
    fs = _fields(d, names, lambda n, t: t in ('integer', 'string', 'boolean'))
    if not fs:
        return None
    key = [rng.choice(fs)[0]]
    return {'step': 'dedup', 'key': key, 'resources': sel}


def gen_unpivot(rng, d, g):
    sel, names = selector(rng, d, allow_all=False)
    if not names:
        return None
    for t in ('integer', 'string', 'number', 'boolean'):
        fs = _fields(d, names, lambda n, tt: tt == t and n != '_id')
        if len(fs) >= 2:
            two = fs[:2]
            return {'step': 'unpivot', 'fields': [n for n, _ in two], 'vtype': t, 'key': g.fresh('uk'), 'value': g.fresh('uv'), 'resources': sel,
                    'regex': rng.random() < 0.5}
    return None


def gen_concatenate(rng, d, g):
    names = d.names()
    if not names:
        return None
    i = rng.randrange(len(names))
    j = rng.randrange(i, min(len(names), i + 3))
    run = names[i:j + 1]
    if len(set(run)) != len(run) or any(names.count(n) > 1 for n in run):
        return None
    # target fields: _id plus every field name of the run (same-named fields must agree on type for a typed result)
    types = {}
    for nm in run:
        for n, t in d.get(nm)['fields']:
            if n in types and types[n] != t:
                return None
            types[n] = t
    if '_id' not in types:
        return None
    fields = {n: [] for n in types}
    return {'step': 'concatenate', 'fields': fields, 'target': g.fresh('cat'), 'resources': run}


def gen_duplicate(rng, d, g):
    names = d.names()
    if not names:
        return None
    src = rng.choice(names)
    if names.count(src) > 1:
        return None
    return {'step': 'duplicate', 'source': src, 'target': g.fresh('dup'), 'to_end': rng.random() < 0.5, 'batch_size': rng.choice([1, 2, 1000])}


def gen_delete_resource(rng, d, g):
    if len(d.res) < 2:
        return None
    sel, names = selector(rng, d, allow_all=False)
    if len(set(names)) >= len(set(d.names())):
        return None
    return {'step': 'delete_resource', 'resources': sel}


def gen_update_resource(rng, d, g):
    sel, names = selector(rng, d, allow_all=False)
    if len(names) != 1 or rng.random() < 0.5:
        return {'step': 'update_resource', 'resources': sel, 'props': {'title': g.fresh('title')}}
    return {'step': 'update_resource', 'resources': sel, 'props': {'name': g.fresh('rr'), 'path': g.fresh('p') + '.csv'}}


def gen_update_schema(rng, d, g):
    sel, names = selector(rng, d, allow_all=False)
    return {'step': 'update_schema', 'resources': sel, 'props': {'missingValues': ['', 'NA']}}


def gen_update_package(rng, d, g):
    return {'step': 'update_package', 'props': {'title': g.fresh('pkg'), 'name': 'pkgname'}}


def gen_set_primary_key(rng, d, g):
    sel, names = selector(rng, d)
    if not _fields(d, names, lambda n, t: n == '_id'):
        return None
    return {'step': 'set_primary_key', 'key': ['_id'], 'resources': sel}


def gen_sort_rows(rng, d, g):
    sel, names = selector(rng, d)
    fs = _fields(d, names, lambda n, t: t in ('integer',) or n == '_id')
    if not fs:
        return None
    n = rng.choice(fs)[0]
    return {'step': 'sort_rows', 'key': '{%s}' % n, 'reverse': rng.random() < 0.5, 'resources': sel, 'tiebreak_id': True}


def gen_join(rng, d, g):
    names = d.names()
    if len(names) < 2 or len(set(names)) != len(names):
        return None
    i = rng.randrange(len(names) - 1)
    j = rng.randrange(i + 1, len(names))
    src, tgt = d.get(names[i]), d.get(names[j])
    common = [(n, t) for n, t in src['fields'] if (n, t) in tgt['fields'] and t in ('integer', 'string', 'boolean') and n != '_id']
    if not common:
        return None
    key = [rng.choice(common)[0]]
    cand = [(n, t) for n, t in src['fields'] if n not in [f[0] for f in tgt['fields']]]
    fields = {}
    fields[g.fresh('jc')] = {'aggregate': 'count'}
    idf = [n for n, t in src['fields'] if n == '_id']
    if idf:
        fields[g.fresh('jx')] = {'name': '_id', 'aggregate': rng.choice(['max', 'min', 'sum', 'first', 'last'])}
    return {'step': 'join', 'source': src['name'], 'source_key': key, 'target': tgt['name'], 'target_key': key, 'fields': fields,
            'mode': rng.choice(['inner', 'half-outer']), 'source_delete': rng.random() < 0.7}


def gen_join_with_self(rng, d, g):
    names = d.names()
    nm = rng.choice(names)
    if names.count(nm) > 1:
        return None
    r = d.get(nm)
    ks = [(n, t) for n, t in r['fields'] if t in ('integer', 'string', 'boolean') and n != '_id']
    if not ks or ('_id', 'integer') not in r['fields']:
        return None
    k = rng.choice(ks)[0]
    return {'step': 'join_with_self', 'resource': nm, 'key': [k], 'fields': {k: None, '_id': {'aggregate': 'min'}, g.fresh('cnt'): {'aggregate': 'count'}}}


def gen_printer(rng, d, g):
    sel, names = selector(rng, d)
    return {'step': 'printer', 'num_rows': rng.choice([1, 2, 10]), 'resources': sel}


def gen_dump_to_path(rng, d, g):
    return {'step': 'dump_to_path', 'out': g.fresh('out'), 'format': rng.choice(['csv', 'json'])}


def gen_dump_to_zip(rng, d, g):
    return {'step': 'dump_to_zip', 'out': g.fresh('zip') + '.zip', 'format': rng.choice(['csv', 'json'])}


def gen_stream(rng, d, g):
    return {'step': 'stream', 'out': g.fresh('strm') + '/s.ndjson'}


def gen_checkpoint(rng, d, g):
    return {'step': 'checkpoint', 'name': g.fresh('cp')}


def gen_finalizer(rng, d, g):
    return {'step': 'finalizer', 'id': g.fresh('fin')}


def gen_update_stats(rng, d, g):
    return {'step': 'update_stats', 'stats': {g.fresh('st'): 1}}


def gen_user(rng, d, g):
    param = rng.choice(['row', 'row', 'rows', 'package'])
    kind = rng.choice(['function', 'lambda', 'method', 'partial', 'callable_obj'])
    mode = rng.choice(['inplace', 'newdict', 'passthrough']) if param == 'row' else rng.choice(['inplace', 'newdict'])
    if kind == 'lambda' and param == 'row':
        mode = 'newdict'
    if param == 'package':
        return {'step': 'user', 'param': 'package', 'kind': kind, 'marker': g.fresh('mk')}
    # the marker is written into a field that must exist: pair with a preceding add_field
    return {'step': 'user', 'param': param, 'kind': kind, 'mode': mode, 'marker': g.fresh('mk')}


def gen_nested_edit(rng, d, g):
    if not any(t in ('array', 'object') for r in d.res for n, t in r['fields']):
        return None
    return {'step': 'nested_edit', 'tag': g.fresh('seen')}


def gen_bump(rng, d, g):
    # a user row function that edits *existing* scalar cells in place (integers incl. the provenance id, strings)
    return {'step': 'bump', 'by': rng.choice([1000000, 2000000])}


def gen_truncate(rng, d, g):
    # a user rows-function that stops pulling its input early (a consumer that stops reading)
    return {'step': 'truncate', 'keep': rng.choice([0, 1, 2, 5])}


def gen_iterable(rng, d, g):
    n = rng.choice([0, 1, 3, 7])
    return {'step': 'iterable', 'rows': [[9000 + 100 * g.n + i, 'it%d' % i] for i in range(n)], 'id_base': 0}


def gen_sources(rng, d, g):
    k = rng.choice([1, 2])
    return {'step': 'sources', 'tables': [[[9500 + 100 * g.n + 10 * j + i, 'sr%d' % i] for i in range(rng.choice([0, 1, 3]))] for j in range(k)], 'first': len(d.res) + 1}


def gen_load_tuple(rng, d, g):
    n = rng.choice([0, 1, 2, 5])
    return {'step': 'load_tuple', 'name': g.fresh('lt'), 'rows': [[9700 + 100 * g.n + i, 'lt%d' % i] for i in range(n)]}


BAD_LINKS = ['func_extra_default', 'func_two', 'func_kwonly', 'lambda_extra', 'int', 'none', 'noparam', 'unknown_name', 'object']

GENS = {k[4:]: v for k, v in list(globals().items()) if k.startswith('gen_') and k != 'gen_step'}


def gen_step(rng, d, g, weights=None):
    kinds = [k for k in GENS if k not in g.exclude and ((g.tags is None and k != 'truncate') or (g.tags is not None and TAGS[k] & g.tags))]
    for _ in range(12):
        k = rng.choice(kinds)
        try:
            spec = GENS[k](rng, d, g)
        except (IndexError, ValueError):
            spec = None
        if spec is not None:
            return spec
    return None


# ------------------------------------------------------------------ builders
_TARGETS = {}

class _Marker:
    """User callables of every dispatch kind.  Each writes `marker` so that its execution is observable."""

    def __init__(self, marker, mode, env):
        self.marker = marker
        self.mode = mode
        self.env = env

    def apply_row(self, row):
        self.env['calls'][self.marker] = self.env['calls'].get(self.marker, 0) + 1
        if self.mode == 'inplace':
            row[self.marker] = 1
            return None
        if self.mode == 'newdict':
            new = dict(row)
            new[self.marker] = 1
            return new
        if self.mode == 'sparse':
            # a projection that keeps only the cells that are set: a NEW row, empty when none of the kept cells is set
            return {k: row[k] for k in getattr(self, 'keep', ()) if row.get(k) is not None}
        return row

    def apply_rows(self, rows):
        for row in rows:
            self.env['calls'][self.marker] = self.env['calls'].get(self.marker, 0) + 1
            if self.mode == 'inplace':
                row[self.marker] = 1
                yield row
            else:
                new = dict(row)
                new[self.marker] = 1
                yield new

    def apply_package(self, package):
        self.env['calls'][self.marker] = self.env['calls'].get(self.marker, 0) + 1
        package.pkg.descriptor['mark_' + self.marker] = True
        yield package.pkg
        yield from package

    # bound methods with the dispatch parameter names
    def m_row(self, row):
        return self.apply_row(row)

    def m_rows(self, rows):
        return self.apply_rows(rows)

    def m_package(self, package):
        return self.apply_package(package)


class _CallRow(_Marker):
    def __call__(self, row):
        return self.apply_row(row)


class _CallRows(_Marker):
    def __call__(self, rows):
        return self.apply_rows(rows)


class _CallPackage(_Marker):
    def __call__(self, package):
        return self.apply_package(package)


def _p_row(mk, row):
    return mk.apply_row(row)


def _p_rows(mk, rows):
    return mk.apply_rows(rows)


def _p_package(mk, package):
    return mk.apply_package(package)


def build_user(spec, env):
    param, kind = spec['param'], spec['kind']
    mk = _Marker(spec['marker'], spec.get('mode', 'inplace'), env)
    mk.keep = tuple(spec.get('keep') or ())
    if kind == 'function':
        if param == 'row':
            def f(row):
                return mk.apply_row(row)
        elif param == 'rows':
            def f(rows):
                return mk.apply_rows(rows)
        else:
            def f(package):
                return mk.apply_package(package)
        return f
    if kind == 'lambda':
        if param == 'row':
            return lambda row: mk.apply_row(row)
        if param == 'rows':
            return lambda rows: mk.apply_rows(rows)
        return lambda package: mk.apply_package(package)
    if kind == 'method':
        return getattr(mk, 'm_' + param)
    if kind == 'partial':
        return functools.partial({'row': _p_row, 'rows': _p_rows, 'package': _p_package}[param], mk)
    if kind == 'callable_obj':
        obj = {'row': _CallRow, 'rows': _CallRows, 'package': _CallPackage}[param](spec['marker'], spec.get('mode', 'inplace'), env)
        obj.keep = mk.keep
        return obj
    raise ValueError(kind)


FILTERS = {
    'even': lambda row: row['_id'] % 2 == 0,
    'odd': lambda row: row['_id'] % 2 == 1,
    'lt3': lambda row: row['_id'] % 10 < 3,
    'none': lambda row: False,
    'all': lambda row: True,
    'mod3': lambda row: row['_id'] % 3 != 1,
}


def build(spec, env):
    """-> list of links (most steps build one; some build two)."""
    import dataflows as DF
    s = spec['step']
    res = spec.get('resources')
    if s == 'add_field':
        return [DF.add_field(spec['name'], spec['type'], spec.get('default'), resources=res)]
    if s == 'add_computed_field':
        f = {'target': spec['target'], 'operation': spec['operation']}
        if 'source' in spec:
            f['source'] = list(spec['source'])
        if 'with' in spec:
            f['with'] = spec['with']
        return [DF.add_computed_field([f], resources=res)]
    if s == 'delete_fields':
        return [DF.delete_fields(list(spec['fields']), resources=res, regex=spec.get('regex', True))]
    if s == 'select_fields':
        return [DF.select_fields(list(spec['fields']), resources=res, regex=spec.get('regex', True))]
    if s == 'rename_fields':
        return [DF.rename_fields(dict(spec['fields']), resources=res, regex=spec.get('regex', True))]
    if s == 'find_replace':
        import copy
        return [DF.find_replace(copy.deepcopy(spec['fields']), resources=res)]
    if s == 'set_type':
        opts = {'type': spec['type']}
        if 'title' in spec:
            opts['title'] = spec['title']
        return [DF.set_type(spec['name'], resources=res, **opts)]
    if s == 'validate':
        return [DF.validate()]
    if s == 'filter_rows':
        return [DF.filter_rows(FILTERS[spec['cond']], resources=res)]
    if s == 'dedup':
        return [DF.set_primary_key(list(spec['key']), resources=res), DF.deduplicate(resources=res)]
    if s == 'unpivot':
        if spec.get('regex', True):
            uf = [{'name': '(%s)' % '|'.join(spec['fields']), 'keys': {spec['key']: r'\1'}}]
        else:
            uf = [{'name': n, 'keys': {spec['key']: n}} for n in spec['fields']]
        return [DF.unpivot(uf, [{'name': spec['key'], 'type': 'string'}], {'name': spec['value'], 'type': spec['vtype']},
                           regex=spec.get('regex', True), resources=res)]
    if s == 'concatenate':
        target = {'name': spec['target'], 'path': spec['target'] + '.csv'}
        if env.get('reuse_targets'):
            # a caller that keeps its target descriptor in one dict and builds its steps from it for every evaluation
            target = _TARGETS.setdefault(spec['target'], target)
        return [DF.concatenate({k: list(v) for k, v in spec['fields'].items()}, target=target, resources=list(spec['resources']))]
    if s == 'duplicate':
        return [DF.duplicate(spec['source'], spec['target'], spec['target'] + '.csv', batch_size=spec.get('batch_size', 1000),
                             duplicate_to_end=spec.get('to_end', False))]
    if s == 'delete_resource':
        return [DF.delete_resource(res)]
    if s == 'update_resource':
        return [DF.update_resource(res, **spec['props'])]
    if s == 'update_schema':
        return [DF.update_schema(res, **spec['props'])]
    if s == 'update_package':
        return [DF.update_package(**spec['props'])]
    if s == 'set_primary_key':
        return [DF.set_primary_key(list(spec['key']), resources=res)]
    if s == 'sort_rows':
        key = spec['key']
        if spec.get('tiebreak_id') and key != '{_id}':
            key = key + '{_id}'
        return [DF.sort_rows(key, resources=res, reverse=spec.get('reverse', False))]
    if s == 'join':
        import copy
        return [DF.join(spec['source'], list(spec['source_key']), spec['target'], list(spec['target_key']), fields=copy.deepcopy(spec['fields']),
                        mode=spec.get('mode', 'half-outer'), source_delete=spec.get('source_delete', True))]
    if s == 'join_with_self':
        import copy
        return [DF.join_with_self(spec['resource'], list(spec['key']), copy.deepcopy(spec['fields']))]
    if s == 'printer':
        rec = env.setdefault('printed', [])

        def hp(name, kw):
            rec.append(['header', name])

        def tp(data, kw):
            rec.append(['table', data])
        return [DF.printer(num_rows=spec.get('num_rows', 10), resources=res, header_print=hp, table_print=tp)]
    if s == 'dump_to_path':
        return [DF.dump_to_path(spec['out'], format=spec.get('format', 'csv'), **(spec.get('options') or {}))]
    if s == 'dump_to_zip':
        return [DF.dump_to_zip(spec['out'], format=spec.get('format', 'csv'), **(spec.get('options') or {}))]
    if s == 'stream':
        return [DF.stream(spec['out'])]
    if s == 'checkpoint':
        return [DF.checkpoint(spec['name'])]
    if s == 'finalizer':
        fid = spec['id']

        def cb():
            env.setdefault('finalized', []).append([fid, env.get('probe_counts', {}).get(fid)])
        return [DF.finalizer(cb)]
    if s == 'update_stats':
        return [DF.update_stats(dict(spec['stats']))]
    if s == 'bump':
        by = spec['by']

        def f(row):
            for k, v in row.items():
                if isinstance(v, bool):
                    continue
                if isinstance(v, int):
                    row[k] = v + by
                elif isinstance(v, str):
                    row[k] = v + '~'
        return [f]
    if s == 'truncate':
        import itertools
        keep = spec['keep']

        def f(rows):
            yield from itertools.islice(rows, keep)
        return [f]
    if s == 'nested_edit':
        tag = spec['tag']

        def f(row):
            # a user step editing array / object cells in place
            for v in row.values():
                if isinstance(v, list):
                    v.append(tag)
                elif isinstance(v, dict):
                    v[tag] = 1
        return [f]
    if s == 'user':
        f = build_user(spec, env)
        env.setdefault('objs', {})[spec['marker']] = f
        if spec['param'] == 'package':
            return [f]
        # the marker is written into a declared field, so that the pipeline stays well-typed
        return [DF.add_field(spec['marker'], 'integer'), f]
    if s == 'user_again':
        # the SAME callable object as an earlier user step of this chain, given as a link a second time
        f = env.get('objs', {}).get(spec['marker'])
        return [f if f is not None else build_user(spec, env)]
    if s == 'iterable':
        return [[{'_id': r[0], 'a': r[1]} for r in spec['rows']]]
    if s == 'sources':
        return [DF.sources(*[[{'_id': r[0], 'a': r[1]} for r in rows] for rows in spec['tables']])]
    if s == 'load_tuple':
        desc = {'resources': [{'name': spec['name'], 'path': spec['name'] + '.csv', 'profile': 'tabular-data-resource',
                               'schema': {'fields': [{'name': '_id', 'type': 'integer'}, {'name': 'a', 'type': 'string'}]}}]}
        return [DF.load((desc, [iter([{'_id': r[0], 'a': r[1]} for r in spec['rows']])]), strip=False)]
    if s == 'bad_link':
        k = spec['kind']
        if k == 'func_extra_default':
            def f(row, offset=1000):
                row['_id'] += offset
            return [f]
        if k == 'func_two':
            def f(row, other):
                return row
            return [f]
        if k == 'func_kwonly':
            def f(rows, *, modulo=3):
                yield from rows
            return [f]
        if k == 'lambda_extra':
            return [lambda row, k=3: row]
        if k == 'int':
            return [7]
        if k == 'none':
            return [None]
        if k == 'noparam':
            def f():
                pass
            return [f]
        if k == 'unknown_name':
            def f(x):
                return x
            return [f]
        if k == 'object':
            return [object()]
        raise ValueError(k)
    if s == 'nest':         # {'step':'nest','steps':[...], 'conditional': bool}
        inner = []
        for sp in spec['steps']:
            inner.extend(build(sp, env))
        f = DF.Flow(*inner)
        if spec.get('conditional'):
            return [DF.conditional(lambda dp: True, f)]
        return [f]
    raise ValueError('unknown step %r' % s)
