"""Seam A - the file-system boundary with crash / torn-write / I/O-error injection.

Inside a simulated process every mutation of a path under the scratch root goes
through a numbered *seam op*:

    create(path)       a file is created/truncated by open(.., 'w'/'x'/'a'/'w+')
    write(path, n)     one raw write(2) of n bytes issued by CPython's own buffering
    close(path)
    rename / unlink / mkdir / chmod

User-space buffering is the interpreter's own (BufferedWriter / TextIOWrapper on
top of ``SimRaw(io.FileIO)``); the simulator owns exactly the system-call
boundary.  A fault plan says what happens at op k:

    {'k': 12, 'kind': 'crash', 'when': 'before' | 'after' | 'torn', 'frac': 0.4}
    {'k': 12, 'kind': 'ioerror', 'errno': 'ENOSPC' | 'EIO' | 'EACCES', 'frac': 0.0}

``crash`` is os._exit(): no finally blocks, no generator finalisers, no flush of
user-space buffers.  What survives is the scratch directory.
"""
import builtins
import errno
import io
import os
import shutil
import tempfile

from ..core.ctx import CRASH_EXIT

_real = {}


ON_OP = None      # scheduling-point hook of the ambient thread seam (dfsim/seams/ambient.py), called before an op is numbered


class FsSeam:
    def __init__(self, ctx, root, plan=None, bufsize=None, copy_bufsize=None, count_only=False):
        self.ctx = ctx
        self.root = os.path.realpath(root)
        self.plan = {}
        for f in plan or []:
            self.plan[int(f['k'])] = f
        self.n = 0
        self.bufsize = bufsize
        self.copy_bufsize = copy_bufsize
        self.installed = False
        self.ops = []            # (n, kind, relpath, size)
        self.tmpmap = {}
        self.written = {}        # relpath -> bytes written through the seam (ground truth of what reached the kernel)
        self.watch = []          # callbacks(op tuple) for probes
        self._depth = 0

    # ---- path handling ---------------------------------------------------
    def in_scope(self, path):
        try:
            p = os.path.realpath(os.fspath(path))
        except TypeError:
            return False
        if isinstance(p, bytes):
            p = p.decode()
        return p == self.root or p.startswith(self.root + os.sep)

    def rel(self, path):
        p = os.path.realpath(os.fspath(path))
        if isinstance(p, bytes):
            p = p.decode()
        r = os.path.relpath(p, self.root)
        parts = r.split(os.sep)
        out = []
        for part in parts:
            if part.startswith('tmp') and len(part) >= 9 and part not in ('tmp',):
                # temp names are made deterministic (see install) but still normalised
                out.append(self.tmpmap.setdefault(part, 'tmp#%d' % (len(self.tmpmap) + 1)))
            else:
                out.append(part)
        return '/'.join(out)

    # ---- the op counter and fault dispatch --------------------------------
    def op(self, kind, path, size=0, do=None, data=None, raw=None):
        """Count one seam op and apply the fault plan.  ``do()`` performs the
        real operation; for writes ``data``/``raw`` allow a torn prefix."""
        if self._depth:
            return do()             # nested call made by the real implementation of an op already counted
        hook = ON_OP
        if hook is not None:
            hook()                  # scheduling point of the ambient thread seam (before the op is numbered)
        self.n += 1
        k = self.n
        rp = self.rel(path)
        rec = (k, kind, rp, size)
        self.ops.append(rec)
        self.ctx.log('fs', k, kind, rp, size)
        self.ctx.count('seam_ops')
        for cb in self.watch:
            cb(rec)
        f = self.plan.get(k)
        if f is None:
            return self._guarded(do)
        if f['kind'] == 'crash':
            when = f.get('when', 'before')
            if when == 'after':
                res = self._guarded(do)
                self._die(k, kind, rp, 'after')
            elif when == 'torn' and kind == 'write' and size > 1:
                cut = max(1, min(size - 1, int(size * float(f.get('frac', 0.5)))))
                io.FileIO.write(raw, bytes(data[:cut]))
                self.written.setdefault(rp, bytearray()).extend(bytes(data[:cut]))
                self.ctx.fault('torn-write')
                self._die(k, kind, rp, 'torn@%d/%d' % (cut, size))
            else:
                self._die(k, kind, rp, 'before')
            return res  # not reached
        if f['kind'] == 'ioerror':
            en = getattr(errno, f.get('errno', 'EIO'))
            frac = float(f.get('frac', 0.0))
            if kind == 'write' and size > 1 and frac > 0:
                cut = max(1, min(size - 1, int(size * frac)))
                io.FileIO.write(raw, bytes(data[:cut]))
                self.written.setdefault(rp, bytearray()).extend(bytes(data[:cut]))
                self.ctx.fault('short-write')
            self.ctx.fault('io-error')
            self.ctx.log('fault', 'io-error', k, kind, rp, f.get('errno', 'EIO'))
            e = OSError(en, os.strerror(en) + ' [dfsim injected at seam op %d %s %s]' % (k, kind, rp))
            e._dfsim_marker = 'io-error@%d' % k
            raise e
        raise AssertionError('unknown fault kind %r' % (f,))

    def _guarded(self, do):
        self._depth += 1
        try:
            return do()
        finally:
            self._depth -= 1

    def _die(self, k, kind, rp, how):
        self.ctx.fault('crash')
        self.ctx.fault('crash:' + how.split('@')[0])
        self.ctx.log('fault', 'crash', k, kind, rp, how)
        self.ctx.flush_events()
        os._exit(CRASH_EXIT)

    # ---- installation ----------------------------------------------------
    def install(self):
        assert not self.installed
        seam = self
        _real.update(open=builtins.open, io_open=io.open, rename=os.rename, replace=os.replace,
                     unlink=os.unlink, remove=os.remove, makedirs=os.makedirs, mkdir=os.mkdir,
                     chmod=os.chmod, NamedTemporaryFile=tempfile.NamedTemporaryFile,
                     rmdir=os.rmdir)
        real_open = builtins.open

        class SimRaw(io.FileIO):
            def __init__(self, path, mode, relkey):
                super().__init__(path, mode)
                self._sim_path = path
                self._sim_closed = False

            def write(self, b):
                mv = memoryview(b).cast('B')
                n = len(mv)

                def do():
                    r = io.FileIO.write(self, mv)
                    seam.written.setdefault(seam.rel(self._sim_path), bytearray()).extend(bytes(mv[:r if r is not None else n]))
                    return r
                return seam.op('write', self._sim_path, n, do, data=mv, raw=self)

            def truncate(self, size=None):
                return seam.op('truncate', self._sim_path, size or 0, lambda: io.FileIO.truncate(self, size))

            def close(self):
                if self._sim_closed or self.closed:
                    return io.FileIO.close(self)
                self._sim_closed = True
                return seam.op('close', self._sim_path, 0, lambda: io.FileIO.close(self))

        def sim_open(file, mode='r', buffering=-1, encoding=None, errors=None, newline=None,
                     closefd=True, opener=None):
            if (isinstance(file, int) or opener is not None or not seam.in_scope(file)
                    or not any(c in mode for c in 'wax+')):
                return real_open(file, mode, buffering, encoding, errors, newline, closefd, opener)
            binary = 'b' in mode
            rawmode = mode.replace('b', '').replace('t', '')
            creating = ('w' in rawmode) or ('x' in rawmode) or ('a' in rawmode and not os.path.exists(file))
            if creating or 'w' in rawmode:
                seam.written[seam.rel(file)] = bytearray()
            raw = seam.op('create' if creating else 'open', file, 0, lambda: SimRaw(file, rawmode, None))
            if buffering == 0:
                if not binary:
                    raise ValueError("can't have unbuffered text I/O")
                return raw
            bs = seam.bufsize or (buffering if buffering > 1 else io.DEFAULT_BUFFER_SIZE)
            if '+' in rawmode:
                buf = io.BufferedRandom(raw, bs)
            elif any(c in rawmode for c in 'wax'):
                buf = io.BufferedWriter(raw, bs)
            else:
                buf = io.BufferedReader(raw, bs)
            if binary:
                return buf
            enc = encoding
            if enc is None:
                enc = 'utf-8' if sys_utf8() else None
            text = io.TextIOWrapper(buf, enc, errors, newline, buffering == 1)
            text.mode = mode
            return text

        def wrap2(name, kind, scope_arg=0):
            real = getattr(os, name)

            def f(src, dst, *a, **kw):
                if seam.in_scope(dst) or seam.in_scope(src):
                    seam.ctx.log('fs-rename', seam.rel(src) if seam.in_scope(src) else '?', seam.rel(dst) if seam.in_scope(dst) else '?')

                    def do():
                        r = real(src, dst, *a, **kw)
                        if seam.in_scope(src) and seam.in_scope(dst):
                            rs, rd = seam.rel(src), seam.rel(dst)
                            if rs in seam.written:
                                seam.written[rd] = seam.written.pop(rs)
                        return r
                    return seam.op(kind, dst, 0, do)
                return real(src, dst, *a, **kw)
            return f

        def wrap1(name, kind):
            real = getattr(os, name)

            def f(path, *a, **kw):
                if isinstance(path, int) or not seam.in_scope(path):
                    return real(path, *a, **kw)
                return seam.op(kind, path, 0, lambda: real(path, *a, **kw))
            return f

        def sim_makedirs(name, mode=0o777, exist_ok=False):
            # count once per call, and only when something is actually created
            if not seam.in_scope(name) or os.path.isdir(name):
                return seam._guarded(lambda: _real['makedirs'](name, mode, exist_ok))
            return seam.op('mkdir', name, 0, lambda: _real['makedirs'](name, mode, exist_ok))

        def sim_ntf(mode='w+b', buffering=-1, encoding=None, newline=None, suffix=None, prefix=None,
                    dir=None, delete=True, *, errors=None, delete_on_close=True):
            d = dir or tempfile.gettempdir()
            if not seam.in_scope(d):
                return _real['NamedTemporaryFile'](mode, buffering, encoding, newline, suffix, prefix, dir,
                                                   delete, errors=errors, delete_on_close=delete_on_close)
            fd, name = tempfile.mkstemp(suffix, prefix, d)
            os.close(fd)
            f = sim_open(name, mode.replace('x', 'w') if 'w' in mode or 'x' in mode else mode, buffering,
                         encoding, errors, newline)
            return tempfile._TemporaryFileWrapper(f, name, delete, delete_on_close)

        builtins.open = sim_open
        io.open = sim_open
        os.rename = wrap2('rename', 'rename')
        os.replace = wrap2('replace', 'rename')
        os.unlink = wrap1('unlink', 'unlink')
        os.remove = wrap1('remove', 'unlink')
        os.mkdir = wrap1('mkdir', 'mkdir')
        os.makedirs = sim_makedirs
        os.chmod = wrap1('chmod', 'chmod')
        tempfile.NamedTemporaryFile = sim_ntf
        shutil._USE_CP_SENDFILE = False
        if hasattr(shutil, '_USE_CP_COPY_FILE_RANGE'):
            shutil._USE_CP_COPY_FILE_RANGE = False
        if self.copy_bufsize:
            shutil.COPY_BUFSIZE = self.copy_bufsize
        # temp files live inside the scratch root, with deterministic names
        tmpdir = os.path.join(self.root, 'tmp')
        self._guarded(lambda: _real['makedirs'](tmpdir, exist_ok=True))
        tempfile.tempdir = tmpdir
        tempfile._name_sequence = _DetNames()
        self.installed = True
        return self


class _DetNames:
    def __init__(self):
        self.i = 0

    def __iter__(self):
        return self

    def __next__(self):
        self.i += 1
        return 'z%07d' % self.i


def sys_utf8():
    import sys
    return bool(sys.flags.utf8_mode) or True   # harness pins UTF-8 for default-encoded text files


def listing(root, skip=('tmp',)):
    """Deterministic listing of a scratch tree: {relpath: size}."""
    out = {}
    for dp, dn, fn in os.walk(root):
        dn.sort()
        rel = os.path.relpath(dp, root)
        if rel.split(os.sep)[0] in skip:
            continue
        for f in sorted(fn):
            p = os.path.join(dp, f)
            out[os.path.normpath(os.path.join(rel, f))] = os.path.getsize(p)
    return out
