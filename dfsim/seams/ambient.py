"""Ambient thread seam - every thread the code under test starts *by itself* runs under the seeded scheduler.

Seam B (sched.install) is wired into the one module that is known to use threads and processes (parallelize).  This
module is its generic counterpart for all the other checks: inside a (forked, throw-away) sub-run child it patches the
process-wide entry points through which Python code obtains concurrency, so that a change that introduces a thread
pool, a background writer or a timer into, say, a dumper does not escape the simulator:

    threading.Thread.start / join / is_alive     the thread becomes a baton-passing task (sched.spawn); nothing runs
                                                 unless the scheduler hands it the baton
    queue.Queue.get / put / join                 blocking variants park the task in the scheduler (virtual timeouts)
    queue.SimpleQueue (name)                     replaced by a simulated FIFO (concurrent.futures' work queue)
    threading.Event.wait, Semaphore.acquire      park in the scheduler
    threading.Condition.wait                     harness error (no verdict) if a simulated task ever reaches it
    threading.Thread.__hash__                    creation order instead of memory address (concurrent.futures joins its
                                                 workers in set-iteration order: a forgotten source of nondeterminism)
    concurrent.futures.Future.result / exception parks in the scheduler until the future is done
    concurrent.futures._base: wait / as_completed use Event.wait, covered by the patch above
    time.sleep                                   virtual time

Scheduling points: the blocking calls above, thread start / exit, and **every numbered file-system seam op** (seam A
calls ``on_op`` before it counts an op) - so two tasks that both touch files can be interleaved, and killed, between
any two of their file operations.  Decisions come from the sub-run's own PRNG stream ('ambient'), so one run seed is
still one exactly repeatable execution.  With a single task (the unchanged tree outside parallelize) no decision is
ever taken and the run is bit-identical to an unpatched one.

Not simulated: ``threading.Lock`` / ``RLock`` / ``Condition`` objects (C types or lock-coupled): a task that is
descheduled while holding one, with another task then blocking on it for real, hangs; the run watchdog turns that
into a harness error (no verdict), never into a verdict.
"""
import queue as _queue
import threading as _threading
import time as _time

from . import sched as S

_REAL = {
    'start': _threading.Thread.start, 'join': _threading.Thread.join, 'is_alive': _threading.Thread.is_alive,
    'q_get': _queue.Queue.get, 'q_put': _queue.Queue.put, 'q_join': _queue.Queue.join, 'SimpleQueue': _queue.SimpleQueue,
    'ev_wait': _threading.Event.wait, 'sleep': _time.sleep, 'sem_acquire': _threading.Semaphore.acquire, 'cond_wait': _threading.Condition.wait,
}

STRATEGIES = ['uniform', 'uniform', 'pct2', 'pct3', 'sticky', 'starve']


class SimSimpleQueue:
    """queue.SimpleQueue twin: FIFO, put never blocks (and is no scheduling point), get parks in the scheduler."""

    def __init__(self):
        self.items = []

    def put(self, item, block=True, timeout=None):
        self.items.append(item)

    put_nowait = put

    def get(self, block=True, timeout=None):
        a = CURRENT
        if a is not None and a.in_sim() and block:
            if not a.sched.block(lambda: bool(self.items), timeout, 'simplequeue.get'):
                raise _queue.Empty()
        if not self.items:
            raise _queue.Empty()
        item = self.items.pop(0)
        if a is not None and a.in_sim() and block:
            a.maybe_stall()
        return item

    def get_nowait(self):
        return self.get(block=False)

    def empty(self):
        return not self.items

    def qsize(self):
        return len(self.items)


CURRENT = None


class Ambient:
    def __init__(self, sub, strategy=None, schedule=None, step_cap=200000):
        rng = sub.rng('ambient')
        self.sub = sub
        self.strategy = strategy or rng.choice(STRATEGIES)
        self.sched = S.Sched(sub, rng, strategy=self.strategy, schedule=schedule, step_cap=step_cap,
                             params={'starve_target': 't', 'est_steps': 60})
        self.nthreads = 0
        self.fs_yields = 0
        self.stalls = 0
        self.installed = False
        # "slow node" faults: a task may stall (virtual time) at a file operation, so that timeouts other tasks have
        # on it can expire - virtual time only advances when nothing is runnable, a merely descheduled task never is late
        srng = sub.rng('ambient-stall')
        self.srng = srng
        self.stall_p = srng.choice([0.0, 0.0, 0.1, 0.3])
        self.stall_d = srng.choice([0.005, 0.1, 2.0, 30.0])

    # -- which real thread is asking?
    def in_sim(self):
        if S.HARNESS_BUSY:
            return False
        th = _threading.current_thread()
        cur = self.sched.current
        if cur is None:
            return False
        return (cur.thread is None and th is _threading.main_thread()) or cur.thread is th

    def multi(self):
        return self.nthreads > 0 and any(not t.done for t in self.sched.tasks[1:])

    def maybe_stall(self):
        """after a task other than main got what it waited for: it may be slow to act on it"""
        cur = self.sched.current
        if self.stall_p and cur is not None and cur.name != 'main' and self.sched.failed is None and self.srng.random() < self.stall_p:
            self.stalls += 1
            self.sub.fault('stall')
            self.sched.sleep(self.stall_d)

    def on_fs_op(self):
        if self.multi() and self.in_sim() and self.sched.failed is None:
            self.fs_yields += 1
            if self.stall_p and self.srng.random() < self.stall_p:
                self.stalls += 1
                self.sub.fault('stall')
                self.sched.sleep(self.stall_d)
            else:
                self.sched.yield_point('fs-op')

    # -- patches
    def install(self):
        global CURRENT
        a = self
        CURRENT = self

        def start(th):
            if th.name.startswith('dfsim-') or not a.in_sim():
                return _REAL['start'](th)
            if getattr(th, '_dfsim_task', None) is not None:
                raise RuntimeError('threads can only be started once')
            a.nthreads += 1
            a.sub.count('ambient_threads')
            a.sub.probe('ambient: the code under test started a thread')
            name = 't%d' % a.nthreads

            def body():
                try:
                    th.run()
                finally:
                    th._dfsim_finished = True
            th._dfsim_finished = False
            th._dfsim_task = a.sched.spawn(name, 0, body, (), {})
            th._started.set()
            a.sub.log('ambient', 'thread-start', name)

        def join(th, timeout=None):
            t = getattr(th, '_dfsim_task', None)
            if t is None or not a.in_sim():
                return _REAL['join'](th, timeout)
            a.sched.block(lambda: t.done, timeout, 'thread.join')

        def is_alive(th):
            t = getattr(th, '_dfsim_task', None)
            if t is None:
                return _REAL['is_alive'](th)
            return not t.done

        def q_get(q, block=True, timeout=None):
            if a.in_sim() and block and a.multi():
                if not a.sched.block(lambda: q._qsize() > 0, timeout, 'queue.get'):
                    raise _queue.Empty()
                item = _REAL['q_get'](q, False)
                a.maybe_stall()
                return item
            return _REAL['q_get'](q, block, timeout)

        def q_put(q, item, block=True, timeout=None):
            if a.in_sim() and block and a.multi() and q.maxsize > 0:
                if not a.sched.block(lambda: q._qsize() < q.maxsize, timeout, 'queue.put'):
                    raise _queue.Full()
                return _REAL['q_put'](q, item, False)
            return _REAL['q_put'](q, item, block, timeout)

        def q_join(q):
            if a.in_sim() and a.multi():
                a.sched.block(lambda: q.unfinished_tasks == 0, None, 'queue.join')
                return
            return _REAL['q_join'](q)

        def ev_wait(ev, timeout=None):
            if a.in_sim() and a.multi():
                return a.sched.block(lambda: ev.is_set(), timeout, 'event.wait')
            return _REAL['ev_wait'](ev, timeout)

        def sleep(d):
            if a.in_sim() and a.multi():
                return a.sched.sleep(d)
            return _REAL['sleep'](d)

        def sem_acquire(sem, blocking=True, timeout=None):
            if a.in_sim() and a.multi() and blocking:
                if not a.sched.block(lambda: sem._value > 0, timeout, 'semaphore.acquire'):
                    return False
                return _REAL['sem_acquire'](sem, False)
            return _REAL['sem_acquire'](sem, blocking, timeout)

        def cond_wait(cond, timeout=None):
            if a.in_sim() and a.multi():
                # every blocking call built on a Condition that the seam knows is diverted before it gets here
                from ..core.ctx import HarnessError
                raise HarnessError('unsimulated primitive threading.Condition.wait used by the code under test (no verdict)')
            return _REAL['cond_wait'](cond, timeout)

        # concurrent.futures keeps its worker threads in a set() and joins them in iteration order: hash by creation
        # order instead of by address, or the join order (a run of scheduling points) would vary from process to process
        seq = [0]

        def thread_hash(th):
            h = th.__dict__.get('_dfsim_hash')
            if h is None:
                seq[0] += 1
                h = th.__dict__['_dfsim_hash'] = seq[0]
            return h
        _threading.Thread.__hash__ = thread_hash
        _threading.Thread.start = start
        _threading.Thread.join = join
        _threading.Thread.is_alive = is_alive
        _queue.Queue.get = q_get
        _queue.Queue.put = q_put
        _queue.Queue.join = q_join
        _queue.SimpleQueue = SimSimpleQueue
        _threading.Event.wait = ev_wait
        _time.sleep = sleep
        _threading.Semaphore.acquire = sem_acquire
        _threading.Semaphore.__enter__ = sem_acquire
        _threading.Condition.wait = cond_wait
        try:
            import concurrent.futures._base as cfb
            import concurrent.futures.thread as cft
            self._cf = (cfb.Future.result, cfb.Future.exception, cft.queue)
            real_result, real_exception = cfb.Future.result, cfb.Future.exception

            def result(f, timeout=None):
                if a.in_sim() and a.multi():
                    if not a.sched.block(lambda: f.done(), timeout, 'future.result'):
                        raise cfb.TimeoutError()
                return real_result(f, timeout)

            def exception(f, timeout=None):
                if a.in_sim() and a.multi():
                    if not a.sched.block(lambda: f.done(), timeout, 'future.exception'):
                        raise cfb.TimeoutError()
                return real_exception(f, timeout)
            cfb.Future.result = result
            cfb.Future.exception = exception
        except ImportError:
            self._cf = None
        from . import fs as fsmod
        fsmod.ON_OP = self.on_fs_op
        self.installed = True

    def uninstall(self):
        global CURRENT
        _threading.Thread.start = _REAL['start']
        _threading.Thread.__hash__ = object.__hash__
        _threading.Thread.join = _REAL['join']
        _threading.Thread.is_alive = _REAL['is_alive']
        _queue.Queue.get = _REAL['q_get']
        _queue.Queue.put = _REAL['q_put']
        _queue.Queue.join = _REAL['q_join']
        _queue.SimpleQueue = _REAL['SimpleQueue']
        _threading.Event.wait = _REAL['ev_wait']
        _time.sleep = _REAL['sleep']
        _threading.Semaphore.acquire = _REAL['sem_acquire']
        _threading.Semaphore.__enter__ = _REAL['sem_acquire']
        _threading.Condition.wait = _REAL['cond_wait']
        if self._cf:
            import concurrent.futures._base as cfb
            cfb.Future.result, cfb.Future.exception = self._cf[0], self._cf[1]
        from . import fs as fsmod
        fsmod.ON_OP = None
        CURRENT = None
        self.installed = False

    def run(self, fn):
        """Run fn() as the main task with the patches in place; afterwards every other task is run to quiescence."""
        self.install()
        self.sub.count('subruns_under_ambient_thread_seam')
        self.sub.count('ambient_threads', 0)
        try:
            return self.sched.run_main(fn)
        finally:
            self.uninstall()
            st = self.sched.stats
            if self.nthreads:
                self.sub.count('ambient_switches', st['switches'])
                self.sub.count('ambient_fs_yields', self.fs_yields)
                self.sub.log('ambient', 'summary', self.strategy, self.nthreads, st['switches'], self.fs_yields, self.stalls, self.sched.leaked())
                import os
                if os.environ.get('DFSIM_AMBIENT_TRACE'):
                    self.sub.log('ambient', 'trace', ' '.join(self.sched.sched_digest_items))


def run(sub, fn):
    return Ambient(sub).run(fn)
