"""Seam B - seeded scheduler for threads / processes / queues / clock.

Simulated tasks are real Python threads that pass a baton: exactly one runs at
any instant; every intercepted synchronisation point parks the caller and lets
the scheduler choose (from the run's PRNG or from a recorded schedule) which
runnable task - or which pending queue-feeder transfer - goes next.  Virtual
time advances only when nothing is runnable, to the earliest pending deadline.

Nothing here can produce a behaviour real threads/processes/queues cannot:
 * thread queue: FIFO, immediately visible;
 * process queue: put() appends to the *sending process's* feeder buffer and never blocks; a separate
   transfer event moves the head of one feeder buffer into the shared pipe (pickling it, so the receiver
   gets a copy); per-sender FIFO, arbitrary cross-sender order and delay; no loss, duplication or reordering
   within a sender;
 * a process has exited only when its function returned AND its feeder buffers are drained;
   close() on a live process raises ValueError as CPython does.
"""
import pickle
import queue as _realqueue
import sys
import threading as _realthreading
import types

from ..core.ctx import HarnessError


_REAL_THREAD_START = _realthreading.Thread.start      # captured before the ambient seam may patch it
HARNESS_BUSY = 0


class Deadlock(Exception):
    pass


class StepCap(Exception):
    pass


class _Abort(BaseException):
    pass


class Task:
    def __init__(self, sched, name, proc):
        self.sched = sched
        self.name = name
        self.proc = proc            # simulated process id this task belongs to (0 = main process)
        self.sem = _realthreading.Semaphore(0)
        self.done = False
        self.started = False
        self.blocked = None         # (ready_fn, deadline or None, why)
        self.timed_out = False
        self.killed = False
        self.exc = None
        self.thread = None
        self.prio = 0.0


class Sched:
    def __init__(self, ctx, rng, strategy='uniform', schedule=None, step_cap=20000, params=None):
        self.ctx = ctx
        self.rng = rng
        self.strategy = strategy
        self.params = params or {}
        self.replay = list(schedule) if schedule is not None else None
        self.rpos = 0
        self.trace = []
        self.tasks = []
        self.now = 0.0
        self.steps = 0
        self.step_cap = step_cap
        self.current = None
        self.feeders = {}           # (qid, proc) -> list of pending objects (per-sender FIFO)
        self.queues = {}
        self.nproc = 0
        self.failed = None          # Deadlock / StepCap raised in main
        self.draining = False
        self.timers = []            # absolute virtual times at which something becomes true without a task acting (process exit latency)
        self.join_timeouts = 0
        self.time_in_join = 0.0
        self.stats = {'switches': 0, 'transfers': 0, 'clock_jumps': 0, 'line_yields': 0}
        self.prio = {}
        self.change_points = set()
        self.starve = None
        self.sched_digest_items = []
        if strategy.startswith('pct'):
            d = int(strategy[3:] or 2)
            est = self.params.get('est_steps', 200)
            self.change_points = set(rng.randrange(1, max(2, est)) for _ in range(d))
        if strategy == 'starve':
            self.starve = {'target': self.params.get('starve_target', 'worker'), 'from': rng.randrange(0, 40),
                           'len': rng.choice([10, 30, 100, 400])}

    # ---------------------------------------------------------------- tasks
    def _new_task(self, name, proc):
        t = Task(self, name, proc)
        t.prio = self.rng.random()
        self.tasks.append(t)
        return t

    def run_main(self, fn):
        """Run fn() as the main task on the calling thread; returns its result."""
        t = self._new_task('main', 0)
        t.started = True
        self.current = t
        try:
            return fn()
        finally:
            if self.failed is None:
                try:
                    self.drain()
                except (Deadlock, StepCap):
                    pass
            t.done = True

    def spawn(self, name, proc, fn, args, kwargs):
        t = self._new_task(name, proc)
        sched = self

        def body():
            t.sem.acquire()
            if sched.failed is not None:
                return
            tr = sched.tracefn
            if tr is not None:
                sys.settrace(tr)
            try:
                fn(*args, **kwargs)
            except _Abort:
                return
            except BaseException as e:  # noqa
                t.exc = e
                sched.ctx.log('sched', 'task-raised', t.name, type(e).__name__, str(e)[:200])
            finally:
                sys.settrace(None)
            t.done = True
            t.done_at = sched.now
            d = sched.params.get('exit_delays', {}).get(t.name)
            if d:
                sched.timers.append(sched.now + d)
            sched.ctx.log('sched', 'task-done', t.name)
            sched._switch_from(t, finished=True)
        t.thread = _realthreading.Thread(target=body, name='dfsim-' + name, daemon=True)
        global HARNESS_BUSY
        HARNESS_BUSY += 1           # the real start() waits on an Event: not a synchronisation point of the code under test
        try:
            _REAL_THREAD_START(t.thread)
        finally:
            HARNESS_BUSY -= 1
        t.started = True
        return t

    tracefn = None

    # ---------------------------------------------------------------- scheduling core
    def _runnable(self):
        out = []
        for t in self.tasks:
            if t.done or t.killed or not t.started:
                continue
            if t.blocked is None:
                out.append(t)
            else:
                ready, deadline, why = t.blocked
                if ready():
                    out.append(t)
                elif deadline is not None and deadline <= self.now:
                    out.append(t)
        return out

    def _transfers(self):
        return sorted(k for k, v in self.feeders.items() if v)

    def _choose(self):
        """-> ('task', Task) | ('xfer', key).  Advances virtual time when nothing is runnable."""
        while True:
            run = self._runnable()
            xf = self._transfers()
            if run or xf:
                break
            deadlines = [t.blocked[1] for t in self.tasks
                         if not t.done and not t.killed and t.started and t.blocked is not None and t.blocked[1] is not None]
            deadlines += [x for x in self.timers if x > self.now]
            if not deadlines:
                return None
            nxt = min(deadlines)
            if nxt > self.now:
                self.stats['clock_jumps'] += 1
                self.ctx.log('sched', 'clock', round(nxt, 6))
                self.now = nxt
        opts = [('task', t) for t in sorted(run, key=lambda t: t.name)] + [('xfer', k) for k in xf]
        labels = [o[1].name if o[0] == 'task' else 'xfer:%s:p%d' % o[1] for o in opts]
        idx = self._pick(labels)
        self.trace.append(idx)
        self.sched_digest_items.append(labels[idx])
        return opts[idx]

    def _pick(self, labels):
        n = len(labels)
        self.steps += 1
        if self.steps > self.step_cap:
            raise StepCap('scheduler step cap %d exceeded' % self.step_cap)
        if self.replay is not None:
            if self.rpos < len(self.replay):
                i = self.replay[self.rpos]
                self.rpos += 1
                return i % n if isinstance(i, int) else 0
            return 0
        if n == 1:
            return 0
        s = self.strategy
        rng = self.rng
        if s == 'uniform':
            return rng.randrange(n)
        if s == 'eager-feeder':
            xs = [i for i, l in enumerate(labels) if l.startswith('xfer:')]
            return rng.choice(xs) if xs else rng.randrange(n)
        if s == 'lazy-feeder':
            ts = [i for i, l in enumerate(labels) if not l.startswith('xfer:')]
            return rng.choice(ts) if ts and rng.random() < 0.97 else rng.randrange(n)
        if s.startswith('pct'):
            if self.steps in self.change_points:
                top = max(labels, key=lambda l: self._prio(l))
                self.prio[top] = -rng.random()
            return max(range(n), key=lambda i: self._prio(labels[i]))
        if s == 'starve':
            st = self.starve
            if st['from'] <= self.steps < st['from'] + st['len']:
                ok = [i for i, l in enumerate(labels) if not l.startswith(st['target'])]
                if ok:
                    return rng.choice(ok)
            return rng.randrange(n)
        if s == 'sticky':       # keep running the same task as long as possible (few context switches)
            cur = self.current.name if self.current else None
            for i, l in enumerate(labels):
                if l == cur and rng.random() < 0.9:
                    return i
            return rng.randrange(n)
        return rng.randrange(n)

    def _prio(self, label):
        if label not in self.prio:
            self.prio[label] = self.rng.random()
        return self.prio[label]

    def _dispatch(self, me, finished=False):
        """Choose what happens next until a task is selected; hand the baton over."""
        if self.failed is not None and not finished:
            # the run has already failed (deadlock / step cap): the main task holds the baton for good and every further
            # synchronisation point it reaches - in the cleanup code of the program under test - fails the same way, so
            # that no other task is woken only to abort without passing the baton on
            if me is self.tasks[0]:
                self.post_failure_calls = getattr(self, 'post_failure_calls', 0) + 1
                if self.post_failure_calls > 200:
                    raise _Abort()          # cleanup code that swallows the failure in a loop
                raise self.failed
            raise _Abort()
        while True:
            try:
                ch = self._choose()
            except StepCap as e:
                self._fail(e, me)
                return
            if ch is None and self.draining:
                # quiescence after the main task has finished its work: hand the baton back to main
                main = self.tasks[0]
                main.blocked = None
                self.current = main
                self.draining = False
                if me is main:
                    return
                main.sem.release()
                if not finished:
                    me.sem.acquire()
                    raise _Abort()
                return
            if ch is None:
                self._fail(Deadlock('no runnable task, no pending transfer, no timer: %s' % self.describe_blocked()), me)
                return
            if ch[0] == 'xfer':
                self._do_transfer(ch[1])
                continue
            t = ch[1]
            if t.blocked is not None:
                ready, deadline, why = t.blocked
                t.timed_out = not ready()
                t.blocked = None
            self.stats['switches'] += (t is not me)
            self.current = t
            if t is me and not finished:
                return
            t.sem.release()
            if not finished:
                me.sem.acquire()
                if self.failed is not None and me.name != 'main':
                    raise _Abort()
                if self.failed is not None and me.name == 'main':
                    raise self.failed
            return

    def _fail(self, exc, me):
        self.failed = exc
        self.ctx.log('sched', 'FAILED', type(exc).__name__)
        main = self.tasks[0]
        if me is main:
            raise exc
        # wake main so that it reports; this thread stops here
        main.blocked = None
        self.current = main
        main.sem.release()
        if not me.done:
            raise _Abort()

    def _switch_from(self, me, finished=False):
        self._dispatch(me, finished=finished)

    # public: a synchronisation point of the current task
    def yield_point(self, why=''):
        self._dispatch(self.current)

    def block(self, ready, timeout=None, why=''):
        """Park the current task until ready() or the (virtual) timeout.  Returns True if ready."""
        me = self.current
        if ready():
            # still a scheduling point
            self._dispatch(me)
            if ready():
                return True
        deadline = None if timeout is None else self.now + max(0.0, float(timeout))
        while True:
            me.blocked = (ready, deadline, why)
            me.timed_out = False
            self._dispatch(me)
            if ready():
                return True
            if deadline is not None and self.now >= deadline:
                return False

    def drain(self):
        """Called by the main task once its own work is over: let every other task run until nothing can make
        progress any more (all done, or blocked with no timer pending).  What is still alive then is leaked."""
        me = self.tasks[0]
        self.current = me
        self.draining = True
        me.done = False
        me.blocked = (lambda: False, None, 'drain')
        self._dispatch(me)
        me.blocked = None
        self.draining = False

    def sleep(self, d):
        if d <= 0:
            return self.yield_point('sleep0')
        self.block(lambda: False, timeout=d, why='sleep')

    def describe_blocked(self):
        return ', '.join('%s<-%s' % (t.name, t.blocked[2]) for t in self.tasks if not t.done and t.blocked is not None)

    def leaked(self):
        return [t.name + ('<-' + t.blocked[2] if t.blocked else '') for t in self.tasks[1:] if not t.done and not t.killed]

    # ---------------------------------------------------------------- process-queue transfer
    def _do_transfer(self, key):
        qid, proc = key
        buf = self.feeders[key]
        data = buf.pop(0)
        self.queues[qid].pipe.append(pickle.loads(data))
        self.stats['transfers'] += 1
        self.ctx.log('sched', 'xfer', qid, proc)

    def proc_drained(self, proc):
        return not any(v for (q, p), v in self.feeders.items() if p == proc)

    def drop_feeders(self, proc):
        for k in list(self.feeders):
            if k[1] == proc:
                self.feeders[k] = []

    def schedule_digest(self):
        import hashlib
        return hashlib.sha256('|'.join(self.sched_digest_items).encode()).hexdigest()[:20]


# ======================================================================== fakes
class SimThreadQueue:
    """queue.Queue twin."""

    def __init__(self, sched, maxsize=0):
        self.s = sched
        self.items = []
        self.maxsize = maxsize

    def put(self, item, block=True, timeout=None):
        s = self.s
        if self.maxsize and self.maxsize > 0:
            ok = s.block(lambda: len(self.items) < self.maxsize, timeout if block else 0, 'tq.put')
            if not ok:
                raise _realqueue.Full()
        else:
            s.yield_point('tq.put')
        self.items.append(item)
        s.ctx.log('sched', 'tq.put', s.current.name)

    def get(self, block=True, timeout=None):
        s = self.s
        ok = s.block(lambda: bool(self.items), timeout if block else 0, 'tq.get')
        if not ok:
            raise _realqueue.Empty()
        s.ctx.log('sched', 'tq.get', s.current.name)
        return self.items.pop(0)

    def put_nowait(self, item):
        return self.put(item, False)

    def get_nowait(self):
        return self.get(False)

    def qsize(self):
        return len(self.items)

    def empty(self):
        self.s.yield_point('tq.empty')
        return not self.items

    def task_done(self):
        pass

    def join(self):
        pass


class SimProcQueue:
    """multiprocessing.Queue twin (feeder buffer per sending process + shared pipe)."""
    _n = 0

    def __init__(self, sched, maxsize=0):
        self.s = sched
        sched._qn = getattr(sched, '_qn', 0) + 1
        self.qid = 'q%d' % sched._qn
        self.pipe = []
        sched.queues[self.qid] = self

    def put(self, obj, block=True, timeout=None):
        s = self.s
        s.yield_point('pq.put')
        data = pickle.dumps(obj)        # real mp pickles in the feeder thread; the object graph is the sender's
        s.feeders.setdefault((self.qid, s.current.proc), []).append(data)
        s.ctx.log('sched', 'pq.put', self.qid, s.current.name)

    def get(self, block=True, timeout=None):
        s = self.s
        ok = s.block(lambda: bool(self.pipe), timeout if block else 0, 'pq.get:' + self.qid)
        if not ok:
            raise _realqueue.Empty()
        s.ctx.log('sched', 'pq.get', self.qid, s.current.name)
        return self.pipe.pop(0)

    def put_nowait(self, obj):
        return self.put(obj, False)

    def get_nowait(self):
        return self.get(False)

    def empty(self):
        self.s.yield_point('pq.empty')
        return not self.pipe

    def qsize(self):
        return len(self.pipe)

    def close(self):
        pass

    def join_thread(self):
        s = self.s
        s.block(lambda: not s.feeders.get((self.qid, s.current.proc)), None, 'pq.join_thread')

    def cancel_join_thread(self):
        pass


class SimThread:
    def __init__(self, sched, group=None, target=None, name=None, args=(), kwargs=None, daemon=None):
        self.s = sched
        self._target, self._args, self._kwargs = target, args, kwargs or {}
        sched._tn = getattr(sched, '_tn', 0) + 1
        self.name = name or 'thread-%d' % sched._tn
        self._label = 'thread-%d:%s' % (sched._tn, getattr(target, '__name__', '?'))
        self.task = None
        self.daemon = daemon

    def start(self):
        s = self.s
        self.task = s.spawn(self._label, s.current.proc, self._target, self._args, self._kwargs)
        s.ctx.log('sched', 'thread.start', self._label)
        s.yield_point('thread.start')

    def join(self, timeout=None):
        s = self.s
        s.block(lambda: self.task is not None and self.task.done, timeout, 'thread.join:' + self._label)

    def is_alive(self):
        self.s.yield_point('thread.is_alive')
        return self.task is not None and not self.task.done


class SimProcess:
    def __init__(self, sched, group=None, target=None, name=None, args=(), kwargs=None, daemon=None):
        self.s = sched
        self._target, self._args, self._kwargs = target, args, kwargs or {}
        sched.nproc += 1
        self._proc = sched.nproc
        self.name = name or 'worker-%d' % self._proc
        self._label = 'worker-%d' % self._proc
        self.task = None
        self._closed = False
        self.daemon = daemon
        self.pid = None

    def start(self):
        s = self.s
        if self._closed:
            raise ValueError('process object is closed')
        self.task = s.spawn(self._label, self._proc, self._target, self._args, self._kwargs)
        self.pid = 40000 + self._proc
        s.ctx.log('sched', 'proc.start', self._label)
        s.yield_point('proc.start')

    def _exited(self):
        t = self.task
        if t is None:
            return False
        if t.killed:
            return True
        # exit latency: a real process needs some time between its function returning and the OS reporting it dead
        delay = self.s.params.get('exit_delays', {}).get(t.name, 0)
        return t.done and self.s.proc_drained(self._proc) and self.s.now >= getattr(t, 'done_at', 0) + delay

    def join(self, timeout=None):
        s = self.s
        if self._closed:
            raise ValueError('process object is closed')
        t0 = s.now
        ok = s.block(self._exited, timeout, 'proc.join:' + self._label)
        s.time_in_join += s.now - t0
        if not ok:
            s.join_timeouts += 1
            s.ctx.log('sched', 'join-timeout', self._label)

    def is_alive(self):
        if self._closed:
            raise ValueError('process object is closed')
        self.s.yield_point('proc.is_alive')
        return self.task is not None and not self._exited()

    @property
    def exitcode(self):
        if self._closed:
            raise ValueError('process object is closed')
        if self.task is None or not self._exited():
            return None
        return -9 if self.task.killed else (1 if self.task.exc is not None else 0)

    def kill(self):
        s = self.s
        s.yield_point('proc.kill')
        if self.task is not None and not self.task.done:
            self.task.killed = True
            s.drop_feeders(self._proc)
            s.ctx.log('sched', 'proc.kill', self._label)

    terminate = kill

    def close(self):
        s = self.s
        s.yield_point('proc.close')
        if self.task is not None and not self._exited():
            raise ValueError('Cannot close a process while it is still running. '
                             'You should first call join() or terminate().')
        self._closed = True


class SimLock:
    def __init__(self, sched):
        self.s = sched
        self.held = False

    def acquire(self, blocking=True, timeout=-1):
        ok = self.s.block(lambda: not self.held, None if (blocking and (timeout is None or timeout < 0)) else (timeout if blocking else 0), 'lock')
        if ok:
            self.held = True
        return ok

    def release(self):
        self.held = False
        self.s.yield_point('lock.release')

    def __enter__(self):
        self.acquire()
        return self

    def __exit__(self, *a):
        self.release()


class SimSemaphore:
    def __init__(self, sched, value=1, bounded=False):
        if value < 0:
            raise ValueError('semaphore initial value must be >= 0')
        self.s = sched
        self.value = value
        self.initial = value
        self.bounded = bounded

    def acquire(self, blocking=True, timeout=None):
        ok = self.s.block(lambda: self.value > 0, (None if timeout is None or timeout < 0 else timeout) if blocking else 0, 'semaphore')
        if ok:
            self.value -= 1
        return ok

    def release(self, n=1):
        if self.bounded and self.value + n > self.initial:
            raise ValueError('Semaphore released too many times')
        self.value += n
        self.s.yield_point('semaphore.release')

    def __enter__(self):
        self.acquire()
        return self

    def __exit__(self, *a):
        self.release()


class SimEvent:
    def __init__(self, sched):
        self.s = sched
        self.flag = False

    def set(self):
        self.s.yield_point('event.set')
        self.flag = True

    def clear(self):
        self.flag = False

    def is_set(self):
        self.s.yield_point('event.is_set')
        return self.flag

    def wait(self, timeout=None):
        return self.s.block(lambda: self.flag, timeout, 'event.wait')


class _FakeModule(types.ModuleType):
    def __init__(self, name, real, overrides, strict=()):
        super().__init__(name)
        self.__dict__['_real'] = real
        self.__dict__['_strict'] = set(strict)
        self.__dict__.update(overrides)

    def __getattr__(self, item):
        if item in self.__dict__['_strict']:
            raise HarnessError('unsimulated primitive %s.%s used by the code under test' % (self.__name__, item))
        return getattr(self.__dict__['_real'], item)


def install(sched, module, cpu_count=None, line_preempt=False):
    """Rebind every global of ``module`` that is (or comes from) multiprocessing / threading / queue / os / time
    to its simulated twin."""
    import multiprocessing
    import os
    import queue
    import threading
    import time
    s = sched

    def mk(cls):
        return lambda *a, **kw: cls(s, *a, **kw)
    fake_mp = _FakeModule('multiprocessing', multiprocessing, {
        'Queue': mk(SimProcQueue), 'Process': mk(SimProcess), 'SimpleQueue': mk(SimProcQueue), 'JoinableQueue': mk(SimProcQueue),
        'cpu_count': lambda: cpu_count or 2, 'Lock': mk(SimLock), 'Event': mk(SimEvent),
        'Semaphore': lambda value=1: SimSemaphore(s, value), 'BoundedSemaphore': lambda value=1: SimSemaphore(s, value, bounded=True),
        'get_context': lambda *a, **k: fake_mp, 'get_start_method': lambda *a, **k: 'fork',
        'current_process': lambda: types.SimpleNamespace(name='p%d' % s.current.proc, pid=40000 + s.current.proc),
    }, strict=['Pool', 'Value', 'Array', 'Manager', 'Pipe', 'Condition', 'Barrier', 'shared_memory'])
    fake_threading = _FakeModule('threading', threading, {
        'Thread': mk(SimThread), 'Lock': mk(SimLock), 'RLock': mk(SimLock), 'Event': mk(SimEvent),
        'Semaphore': lambda value=1: SimSemaphore(s, value), 'BoundedSemaphore': lambda value=1: SimSemaphore(s, value, bounded=True),
    }, strict=['Condition', 'Barrier', 'Timer'])
    fake_queue = _FakeModule('queue', queue, {'Queue': mk(SimThreadQueue), 'SimpleQueue': mk(SimThreadQueue)},
                             strict=['LifoQueue', 'PriorityQueue'])
    fake_os = _FakeModule('os', os, {'getpid': lambda: 40000 + s.current.proc, 'cpu_count': lambda: cpu_count or 2})
    fake_time = _FakeModule('time', time, {'sleep': s.sleep, 'time': lambda: 1.7e9 + s.now, 'monotonic': lambda: s.now,
                                           'perf_counter': lambda: s.now})
    byid = {id(multiprocessing): fake_mp, id(threading): fake_threading, id(queue): fake_queue, id(os): fake_os, id(time): fake_time}
    byobj = [(multiprocessing.Queue, fake_mp.Queue), (multiprocessing.Process, fake_mp.Process),
             (threading.Thread, fake_threading.Thread), (queue.Queue, fake_queue.Queue),
             (os.getpid, fake_os.getpid), (os.cpu_count, fake_os.cpu_count), (time.sleep, fake_time.sleep),
             (multiprocessing.cpu_count, fake_mp.cpu_count), (threading.Lock, fake_threading.Lock),
             (threading.Event, fake_threading.Event), (threading.Semaphore, fake_threading.Semaphore),
             (threading.BoundedSemaphore, fake_threading.BoundedSemaphore)]
    n = 0
    for k, v in list(vars(module).items()):
        if id(v) in byid:
            setattr(module, k, byid[id(v)])
            n += 1
            continue
        for real, fake in byobj:
            try:
                same = v is real or v == real
            except Exception:  # noqa
                same = False
            if same:
                setattr(module, k, fake)
                n += 1
                break
    if n == 0:
        raise HarnessError('no concurrency primitive found to rebind in %s' % module.__name__)
    if line_preempt:
        fname = module.__file__

        def tracer(frame, event, arg):
            if frame.f_code.co_filename != fname:
                return None

            def local(frame, event, arg):
                if event == 'line' and s.failed is None:
                    cur = s.current
                    th = _realthreading.current_thread()
                    if cur is not None and ((cur.thread is None and th is _realthreading.main_thread()) or cur.thread is th):
                        s.stats['line_yields'] += 1
                        s.yield_point('line')
                return local
            return local
        s.tracefn = tracer
    return n


def guard_real_concurrency():
    """After a simulated run: no real child process and no foreign thread may have appeared."""
    import multiprocessing
    kids = multiprocessing.active_children()
    if kids:
        raise HarnessError('real child processes appeared during a simulated run: %r' % kids)
    foreign = [t.name for t in _realthreading.enumerate() if t is not _realthreading.main_thread() and not t.name.startswith('dfsim-')]
    if foreign:
        raise HarnessError('real threads appeared during a simulated run: %r' % foreign)
