"""Fault injectors other than the FS seam: tripwire steps, raising sources, KVFile errors; exception factory."""
import sys

EXC_CLASSES = ['Boom', 'ValueError', 'KeyError', 'AssertionError', 'OSError', 'RuntimeError', 'TypeError',
               'ts.CastError', 'ts.CastErrorWithErrors', 'ts.ValidationError', 'ts.UniqueKeyError', 'ts.TableSchemaException',
               'dp.DataPackageException', 'dp.ValidationError', 'dp.CastError', 'df.ValidationError', 'df.ProcessorError',
               'tabulator.SourceError', 'UnicodeDecodeError', 'ZeroDivisionError', 'StopIteration', 'AttributeError', 'IndexError', 'LookupError']
# the classes library code is most likely to have handlers for (a handler that is too wide swallows a real failure)
HANDLED_CLASSES = ['KeyError', 'ValueError', 'TypeError', 'AttributeError', 'IndexError', 'LookupError', 'OSError', 'AssertionError']


class Boom(Exception):
    pass


def make_exc(name, marker):
    import datapackage.exceptions as dpx
    import tableschema.exceptions as tsx
    msg = 'dfsim injected %s [%s]' % (name, marker)
    if name == 'Boom':
        e = Boom(msg)
    elif name == 'ts.CastError':
        e = tsx.CastError(msg)
    elif name == 'ts.CastErrorWithErrors':
        e = tsx.CastError(msg, errors=[tsx.CastError('inner 1'), tsx.CastError('inner 2')])
    elif name == 'ts.ValidationError':
        e = tsx.ValidationError(msg)
    elif name == 'ts.UniqueKeyError':
        e = tsx.UniqueKeyError(msg)
    elif name == 'ts.TableSchemaException':
        e = tsx.TableSchemaException(msg)
    elif name == 'dp.DataPackageException':
        e = dpx.DataPackageException(msg)
    elif name == 'dp.ValidationError':
        e = dpx.ValidationError(msg)
    elif name == 'dp.CastError':
        e = dpx.CastError(msg)
    elif name == 'df.ValidationError':
        import dataflows
        e = dataflows.ValidationError('res', {'a': 1}, 0, None)
    elif name == 'df.ProcessorError':
        from dataflows.base.exceptions import ProcessorError
        e = ProcessorError(Boom('inner of prebuilt ProcessorError'), processor_name='prebuilt', processor_object=None, processor_position=99)
    elif name == 'tabulator.SourceError':
        import tabulator.exceptions as tbx
        e = tbx.SourceError(msg)
    elif name == 'UnicodeDecodeError':
        e = UnicodeDecodeError('utf-8', b'\xff', 0, 1, msg)
    elif name == 'KeyError':
        e = KeyError(msg)
    else:
        e = getattr(__import__('builtins'), name)(msg)
    e._dfsim_marker = marker
    return e


def tripwire(fault, ctx):
    """A user step that raises per `fault`:
       {'phase': 'package'}                       raises while the package is being defined
       {'phase': 'row', 'res': r, 'row': k}        raises instead of delivering row k of the r-th resource
       {'phase': 'end', 'res': r}                  raises when the r-th resource is exhausted
       {'phase': 'after-all'}                      raises after the last resource has been passed on
       {'phase': 'rowfunc', 'call': k}             a row-function raising at its k-th call
       {'phase': 'cond-predicate' | 'cond-factory'} a conditional() step whose predicate / flow factory raises
    Returns a link."""
    marker = 'trip'

    def fire(where):
        ctx.fault('step-raise')
        ctx.log('fault', 'step-raise', where)
        raise make_exc(fault['exc'], marker)
    ph = fault['phase']
    if ph in ('cond-predicate', 'cond-factory'):
        # a conditional() whose predicate - or whose flow factory - raises while the package is being defined
        import dataflows as DF

        def predicate(dp):
            if ph == 'cond-predicate':
                fire('conditional predicate')
            return True

        def factory(dp):
            fire('conditional flow factory')
        return DF.conditional(predicate, factory if ph == 'cond-factory' else DF.Flow())
    if ph == 'rowfunc':
        state = {'n': 0}

        def f(row):
            if state['n'] == fault['call']:
                fire('rowfunc call %d' % state['n'])
            state['n'] += 1
        return f

    def step(package):
        if ph == 'package':
            fire('package')
        yield package.pkg
        for ri, res in enumerate(package):
            yield guarded(ri, res)
        if ph == 'after-all':
            fire('after-all')

    def guarded(ri, res):
        k = -1
        for k, row in enumerate(res):
            if ph == 'row' and fault['res'] == ri and fault['row'] == k:
                fire('res %d row %d' % (ri, k))
            yield row
        if ph == 'end' and fault['res'] == ri:
            fire('res %d end' % ri)
    return step


def raising_source(rows, after, exc, ctx):
    def gen():
        for i, row in enumerate(rows):
            if i == after:
                ctx.fault('source-raise')
                ctx.log('fault', 'source-raise', i)
                raise make_exc(exc, 'source')
            yield row
        if after >= len(rows):
            ctx.fault('source-raise')
            ctx.log('fault', 'source-raise', 'exhaustion')
            raise make_exc(exc, 'source')
    return gen()


def install_kv(ctx, size=None, fail_at=None, exc='sqlite3.OperationalError'):
    """Replace the KVFile global of join / sort_rows / duplicate by a twin with a knob for the LRU size and an
    optional fault at its k-th operation.  Returns a dict with the op counter."""
    import sqlite3
    state = {'n': 0}
    mods = [sys.modules['dataflows.processors.' + m] for m in ('join', 'sort_rows', 'duplicate')]
    base = mods[0].KVFile

    def tick(op):
        state['n'] += 1
        ctx.count('kv_ops')
        if fail_at is not None and state['n'] == fail_at:
            ctx.fault('kv-error')
            ctx.log('fault', 'kv-error', state['n'], op)
            e = sqlite3.OperationalError('disk I/O error [dfsim injected at KVFile op %d %s]' % (state['n'], op))
            e._dfsim_marker = 'kv'
            raise e

    class KVTwin(base):
        def __init__(self, *a, **kw):
            if size is not None:
                kw.setdefault('size', size)
            super().__init__(*a, **kw)

        def set(self, key, value):
            tick('set')
            return super().set(key, value)

        def get(self, key, **kw):
            tick('get')
            return super().get(key, **kw)

        def items(self, reverse=False):
            tick('items')
            return super().items(reverse)

        def insert(self, it, batch_size=1000):
            tick('insert')
            return super().insert(it, batch_size=batch_size)

        def _set_db_batch(self, batch):
            tick('batch')
            return super()._set_db_batch(batch)

    for m in mods:
        if getattr(m, 'KVFile', None) is not None:
            m.KVFile = KVTwin
    return state


class Poison:
    """A cell value whose use raises: the *built-in* step that first touches it (formats it, compares it, hashes it,
    iterates it, adds it ...) raises from its own frame, at a known row.  isinstance checks do not touch it."""

    def __init__(self, exc_name, ctx, heal=None):
        object.__setattr__(self, '_exc_name', exc_name)
        object.__setattr__(self, '_ctx', ctx)
        object.__setattr__(self, '_heal', heal)

    def _fire(self, how):
        ctx = object.__getattribute__(self, '_ctx')
        ctx.fault('poison')
        ctx.log('fault', 'poison', how)
        heal = object.__getattribute__(self, '_heal')
        if heal is not None:
            # the failure is transient: the cell holds its ordinary value again once the use has failed, so a step that
            # swallows the failure in a handler of its own carries on with clean data - and the run returns normally
            row, name, orig = heal
            if row.get(name) is self:
                row[name] = orig
        raise make_exc(object.__getattribute__(self, '_exc_name'), 'poison')

    def __str__(self):
        self._fire('str')

    def __repr__(self):
        return '<Poison>'

    def __format__(self, spec):
        self._fire('format')

    def __eq__(self, other):
        self._fire('eq')

    def __ne__(self, other):
        self._fire('ne')

    def __hash__(self):
        self._fire('hash')

    def __lt__(self, other):
        self._fire('lt')

    __gt__ = __le__ = __ge__ = __lt__

    def __iter__(self):
        self._fire('iter')

    def __add__(self, other):
        self._fire('add')

    __radd__ = __mul__ = __rmul__ = __sub__ = __rsub__ = __truediv__ = __rtruediv__ = __add__

    def __bool__(self):
        self._fire('bool')

    def __len__(self):
        self._fire('len')

    def __float__(self):
        self._fire('float')

    def __int__(self):
        self._fire('int')

    def __reduce__(self):
        self._fire('pickle')

    def __deepcopy__(self, memo):
        self._fire('deepcopy')


def poisoner(fault, ctx):
    """A rows-step replacing one cell (resource r, row k, field by position) with a Poison.  With 'res_name' and
    'field_name' in the fault: a package-step poisoning that named cell (a cell the next step uses as a key)."""
    state = {'res': -1}
    if fault.get('res_name'):
        def pstep(package):
            yield package.pkg
            for res in package:
                yield named(res) if res.res.name == fault['res_name'] else res

        def named(rows):
            for k, row in enumerate(rows):
                if k == fault['row'] and fault['field_name'] in row:
                    row[fault['field_name']] = Poison(fault['exc'], ctx, heal=(row, fault['field_name'], row[fault['field_name']]))
                    ctx.log('fault', 'poison-planted', fault['res_name'], k, fault['field_name'])
                yield row
        return pstep

    def step(rows):
        state['res'] += 1
        for k, row in enumerate(rows):
            if state['res'] == fault['res'] and k == fault['row'] and row:
                names = [n for n in row if n != '_id'] or list(row)
                name = names[fault.get('field', 0) % len(names)]
                row[name] = Poison(fault['exc'], ctx, heal=(row, name, row[name]))
                ctx.log('fault', 'poison-planted', state['res'], k, name)
            yield row
    return step
