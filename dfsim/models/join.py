"""Reference model of join: the documented semantics over Python lists (PROCESSORS.md, "join").

model(source_rows, target_rows, spec) -> {'target': [rows in order], 'extras': [rows, any order], 'dedup': [rows, any order]}
Freedoms the documentation leaves are represented explicitly:
  * 'set'       -> compared as a set            ({'~set': [...]})
  * 'counters'  -> compared as a count map      ({'~counters': {value: n}})
  * 'any'       -> any one of the matching non-null values ({'~any': [...]})
"""
import statistics  # noqa


def render(key, row, n):
    if isinstance(key, list):
        key = ':'.join('{%s}' % k for k in key)
    return key.format(**{**row, '#': n})


def key_fields(key):
    import re
    if isinstance(key, list):
        return list(key)
    return re.findall(r'\{(.*?)\}', key)


def aggregate(agg, values, nrows):
    """values: the matching source values of the mapped field, in order, nulls included"""
    nn = [v for v in values if v is not None]
    if agg == 'count':
        return None     # handled by caller (depends on whether a name was given)
    if agg == 'array':
        return list(nn)
    if agg == 'set':
        return {'~set': sorted(set(nn), key=repr)}
    if agg == 'counters':
        m = {}
        for v in nn:
            m[repr(v)] = m.get(repr(v), 0) + 1
        return {'~counters': m}
    if not nn:
        return None
    if agg == 'sum':
        out = nn[0]
        for v in nn[1:]:
            out = out + v
        if isinstance(out, str):
            # "for strings the concatenation of strings": the documentation does not fix the order
            rev = ''.join(reversed(nn))
            return {'~either': [out, rev]}
        return out
    if agg == 'avg':
        return sum(nn) / len(nn)
    if agg == 'median':
        s = sorted(nn)
        k = len(s)
        return s[k // 2] if k % 2 else (s[k // 2 - 1] + s[k // 2]) / 2
    if agg == 'max':
        return max(nn)
    if agg == 'min':
        return min(nn)
    if agg == 'first':
        return nn[0]
    if agg == 'last':
        return nn[-1]
    if agg == 'any':
        return {'~any': list(nn)}
    raise ValueError(agg)


def expand_fields(fields, source_field_names):
    fields = {k: dict(v or {}) for k, v in fields.items()}
    for k, v in fields.items():
        if k != '*':
            v.setdefault('name', k)
            v.setdefault('aggregate', 'any')
    if '*' in fields:
        spec = fields.pop('*')
        used = set(v['name'] for v in fields.values())
        for n in source_field_names:
            if n not in used and n not in fields:
                fields[n] = dict(spec, name=n)
                fields[n].setdefault('aggregate', 'any')
    return fields


def model(source_rows, target_rows, spec, source_field_names, explicit_count_names=()):
    fields = expand_fields(spec['fields'], source_field_names)
    groups = {}
    order = []
    for n, row in enumerate(source_rows, start=1):
        k = render(spec['source_key'], row, n)
        if k not in groups:
            groups[k] = []
            order.append(k)
        groups[k].append(row)

    def agg_row(rows):
        out = {}
        for tgt, f in fields.items():
            if f['aggregate'] == 'count':
                if tgt in explicit_count_names:
                    out[tgt] = {'~count': {'nonnull': sum(1 for r in rows if r.get(f['name']) is not None), 'all': len(rows)}}
                else:
                    out[tgt] = len(rows)
            else:
                out[tgt] = aggregate(f['aggregate'], [r.get(f['name']) for r in rows], len(rows))
        return out

    if spec.get('target_key') is None:
        return {'dedup': [agg_row(groups[k]) for k in order]}
    used = set()
    out = []
    for n, row in enumerate(target_rows, start=1):
        k = render(spec['target_key'], row, n)
        new = dict(row)
        if k in groups:
            used.add(k)
            new.update(agg_row(groups[k]))
        else:
            if spec['mode'] == 'inner':
                continue
            for tgt in fields:
                new[tgt] = row.get(tgt)        # unmatched: null, unless the target already has a value under that name
        out.append(new)
    extras = []
    if spec['mode'] == 'full-outer':
        skf, tkf = key_fields(spec['source_key']), key_fields(spec['target_key'])
        for k in order:
            if k not in used:
                e = agg_row(groups[k])
                for a, b in zip(tkf, skf):
                    if b != '#' and a != '#':
                        e[a] = groups[k][-1].get(b)
                extras.append(e)
    return {'target': out, 'extras': extras}


def matches(got, exp):
    """compare an observed value with a model value that may carry one of the freedoms"""
    if isinstance(exp, dict) and '~set' in exp:
        try:
            return isinstance(got, list) and sorted(got, key=repr) == exp['~set'] and len(set(map(repr, got))) == len(got)
        except TypeError:
            return False
    if isinstance(exp, dict) and '~counters' in exp:
        if not isinstance(got, list):
            return False
        m = {}
        for pair in got:
            if not isinstance(pair, (list, tuple)) or len(pair) != 2:
                return False
            m[repr(pair[0])] = pair[1]
        return m == exp['~counters'] and len(m) == len(got)
    if isinstance(exp, dict) and '~either' in exp:
        return any(got == v for v in exp['~either'])
    if isinstance(exp, dict) and '~count' in exp:
        return got == exp['~count']['nonnull']
    if isinstance(exp, dict) and '~any' in exp:
        return any(type(got) is type(v) and got == v for v in exp['~any'])
    if isinstance(exp, float) or isinstance(got, float):
        try:
            return got is not None and exp is not None and abs(float(got) - float(exp)) <= 1e-9 * max(1.0, abs(float(exp)))
        except (TypeError, ValueError):
            return False
    if exp is None or got is None:
        return exp is None and got is None
    if isinstance(exp, bool) or isinstance(got, bool):
        return type(got) is type(exp) and got == exp
    return got == exp


def row_matches(got, exp, names):
    for n in names:
        if not matches(got.get(n), exp.get(n)):
            return n
    return None
