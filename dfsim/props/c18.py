"""C18 - parallelize delivers every row exactly once under every schedule.

The whole of parallelize.py (producer, fetcher, work, fork, init_mp, fini_mp) and the Flow around it run real
code; multiprocessing / threading / queue / os.cpu_count / time are the simulator's twins (seam B).  One integer
decides the workload, the strategy and every scheduling decision.
"""
import json
import sys

from ..core.prop import Prop
from ..gen import tables as T
from ..seams import sched as S

STRATEGIES = ['uniform', 'uniform', 'pct1', 'pct2', 'pct3', 'starve', 'eager-feeder', 'lazy-feeder', 'sticky']
PREDICATES = ['none', 'all', 'some', 'nothing', 'late', 'one']


def predicate_fn(kind, n):
    if kind == 'none':
        return None
    if kind == 'all':
        return lambda row: True
    if kind == 'some':
        return lambda row: row['_id'] % 3 != 0
    if kind == 'nothing':
        return lambda row: False
    if kind == 'late':
        return lambda row: row['_id'] >= max(1, n - 2)
    if kind == 'one':
        return lambda row: row['_id'] == n // 2
    raise ValueError(kind)


def selected(kind, n, rid):
    f = predicate_fn(kind, n)
    return True if f is None else bool(f({'_id': rid}))


class C18(Prop):
    ID = 'C18'
    TITLE = 'parallelize delivers every row exactly once under every schedule'
    LEVEL = 'exploration'
    TECHNIQUE = 'deterministic simulation: baton-passing seeded scheduler over simulated processes/threads/queues with virtual time; history oracle (exactly-once, termination)'
    SIMTIME_UNIT = 'scheduler steps (one decision among runnable tasks and pending queue-feeder transfers) and virtual seconds'
    RULE = ('one evaluation = one seeded run of Flow(source[, bypass resource], parallelize(f, N workers, predicate)) with 0-12 rows, N=1..4 (explicit or via the '
            'cpu_count knob), predicate in {none, all, some, nothing, first-selected-late, one}, seeded stalls of the source / the row function / the consumer in '
            'virtual time, under one of 8 scheduling strategies (uniform, PCT-1/2/3, starve-one-task, eager/lazy feeder, sticky), optionally with line-level '
            'pre-emption inside parallelize.py. Non-trivial = at least one row went through a worker; distinct = distinct digests of the sequence of scheduling decisions.')
    ASSUMPTIONS = ['worker processes are simulated as threads with pickled queue traffic; bugs depending on real fork semantics (inherited locks, COW globals) are out of reach',
                   'mp.Queue modelled as per-sender FIFO feeder buffers + shared pipe: no loss/duplication/reordering within a sender (what real queues guarantee)',
                   'the row function is a pure marker supplied by the harness']
    REAL_VS_STUB = {'real': ['dataflows/processors/parallelize.py (all of it)', 'Flow / iterable_loader / driver'],
                    'stub': ['multiprocessing.Queue/Process', 'threading.Thread/Lock/Event', 'queue.Queue', 'os.cpu_count/getpid', 'time (virtual clock)']}
    PROBES = ['module-constant-scaled-down', 'line-preempt-run', 'clock-jumped', 'source-stalled', 'rowfunc-stalled', 'consumer-stalled', 'bypass-resource', 'default-num-processors',
              'empty-stream', 'nothing-selected', 'first-selected-late', 'workers>rows', 'two-parallelize-stages', 'rowfunc-raised', 'slow-worker-exit',
              'rowfunc-returns-a-value', 'two-resources-through-one-step'] + ['strategy:' + x for x in sorted(set(STRATEGIES))]
    TIERS = {'quick': dict(runs=4000, wall=100, run_wall=300),
             'thorough': dict(runs=150000, wall=1700, run_wall=600)}
    SHRINK_FROZEN = ()

    def generate(self, rng, tier):
        n = rng.choice([0, 1, 2, 3, 4, 5, 6, 8, 12])
        sc = {'n': n, 'workers': rng.choice([1, 2, 2, 3, 4]), 'predicate': rng.choice(PREDICATES),
              'strategy': rng.choice(STRATEGIES), 'line': rng.random() < 0.15}
        if rng.random() < 0.2:
            sc['default_workers'] = True
            sc['cpu_count'] = rng.choice([1, 1, 2])      # num_processors = 2*cpu_count
        if rng.random() < 0.3:
            sc['bypass_rows'] = rng.choice([0, 1, 3])
            sc['bypass_first'] = rng.random() < 0.5
        # stalls in virtual seconds ("slow or stalled node"); sparse
        def stalls(p, count):
            out = {}
            for i in range(count):
                if rng.random() < p:
                    out[str(i)] = rng.choice([0.5, 1.2, 2.0, 6.0, 11.0, 30.0])
            return out
        if rng.random() < 0.35:
            sc['source_stalls'] = stalls(0.25, n + 1)
        if rng.random() < 0.35:
            sc['func_stalls'] = stalls(0.3, n)
        if rng.random() < 0.2:
            sc['consumer_stalls'] = stalls(0.2, n)
        if rng.random() < 0.12 and n:
            # the row function fails on some rows: documented to be reported and the row passed on - it must still be delivered exactly once
            sc['func_raises'] = sorted(set(rng.randrange(n) for _ in range(rng.choice([1, 2]))))
        if rng.random() < 0.5:
            sc['knob'] = rng.choice([1, 2, 3])
        if rng.random() < 0.12:
            sc['two_stage'] = {'workers': rng.choice([1, 2]), 'predicate': rng.choice(['none', 'some', 'late'])}
        if rng.random() < 0.15:
            # a worker process that needs a while to exit after its function returned (teardown, loaded machine): well below the 10 s the code waits
            sc['exit_delays'] = {'worker-%d' % (1 + rng.randrange(sc['workers'])): rng.choice([0.3, 2.5, 6.0])}
        if sc['strategy'] == 'starve':
            sc['starve_target'] = rng.choice(['worker-1', 'worker', 'thread-1', 'thread-2', 'xfer', 'main', 'xfer:q1', 'xfer:q2'])
        if sc.get('bypass_rows') is not None and rng.random() < 0.5:
            # the second resource goes through the same parallelize step (one pool of workers per resource, one after the other)
            sc['bypass_selected'] = True
        if rng.random() < 0.25:
            # the row function edits the row in place, as documented, and ALSO returns something (its return value means nothing)
            sc['ret'] = rng.choice(['value', 'dict', 'row', 'zero'])
        return sc

    def execute(self, sc, ctx):
        n = int(sc.get('n', 0))
        nw = int(sc.get('workers', 2))
        pk = sc.get('predicate', 'none')
        par = sys.modules['dataflows.processors.parallelize']
        from dataflows import Flow, parallelize
        est = 30 * (n + nw) + 60
        s = S.Sched(ctx, ctx.rng('sched'), strategy=sc.get('strategy', 'uniform'), schedule=sc.get('schedule'),
                    step_cap=(400 * (n + nw) + 4000 if not sc.get('line') else 4000 * (n + nw) + 40000) * (3 if sc.get('two_stage') else 1),
                    params={'est_steps': est, 'starve_target': sc.get('starve_target', 'worker'), 'exit_delays': sc.get('exit_delays') or {}})
        S.install(s, par, cpu_count=sc.get('cpu_count'), line_preempt=bool(sc.get('line')))
        # tuning knobs: module-level integer constants of parallelize.py (queue bounds, batch sizes, back-pressure limits a
        # change may introduce) are scaled down, so that correctness never silently depends on one generous setting
        if sc.get('knob') is not None:
            for k, v in list(vars(par).items()):
                if k.isupper() and isinstance(v, int) and not isinstance(v, bool) and v > sc['knob']:
                    setattr(par, k, sc['knob'])
                    ctx.probe('module-constant-scaled-down')
                    ctx.log('knob', k, v, sc['knob'])
        applied = {}
        src_st = sc.get('source_stalls') or {}
        fn_st = sc.get('func_stalls') or {}
        con_st = sc.get('consumer_stalls') or {}
        fn_raise = set(sc.get('func_raises') or [])
        ret = sc.get('ret')
        if ret:
            ctx.probe('rowfunc-returns-a-value')
        both = bool(sc.get('bypass_selected')) and sc.get('bypass_rows') is not None
        if both:
            ctx.probe('two-resources-through-one-step')

        def row_func(row):
            rid = row['_id']
            applied[rid] = applied.get(rid, 0) + 1
            ctx.log('apply', rid)
            d = fn_st.get(str(rid))
            if d:
                ctx.probe('rowfunc-stalled')
                s.sleep(d)
            if rid in fn_raise:
                ctx.probe('rowfunc-raised')
                raise ZeroDivisionError('row function fails on row %d' % rid)
            row['c'] = rid * 7 + 1
            if ret == 'value':
                return row['c']
            if ret == 'dict':
                return {'_id': -1 - rid, 'foreign': True}
            if ret == 'row':
                return row
            if ret == 'zero':
                return 0

        def source():
            for i in range(n):
                ctx.count('rows_pulled')
                yield {'_id': i, 'a': 'v%d' % i, 'c': None if i else -1, 'd': None if i else -1}

        def upstream(rows):
            # a row-phase step between the source and parallelize: this is what the producer thread pulls from.
            # (stalls inside the source iterable itself would all happen during schema inference, before any thread exists)
            if rows.res.name != 'main':
                yield from rows
                return
            i = -1
            for i, row in enumerate(rows):
                d = src_st.get(str(i))
                if d:
                    ctx.probe('source-stalled')
                    s.sleep(d)
                yield row
            d = src_st.get(str(i + 1))
            if d:
                ctx.probe('source-stalled')
                s.sleep(d)

        delivered = []

        def sink(rows):
            if rows.res.name != 'main':
                yield from rows
                return
            for k, row in enumerate(rows):
                delivered.append(dict(row))
                d = con_st.get(str(k))
                if d:
                    ctx.probe('consumer-stalled')
                    s.sleep(d)
                yield row

        from dataflows import update_resource
        links = []
        byp = sc.get('bypass_rows')
        bypass_rows = [{'_id': 1000 + i, 'a': 'b%d' % i, 'c': None if i else -1, 'd': None if i else -1} for i in range(byp or 0)]
        if byp is not None and sc.get('bypass_first'):
            links += [bypass_rows, update_resource(-1, name='other')]
        links += [source(), update_resource(-1, name='main')]
        if byp is not None and not sc.get('bypass_first'):
            links += [bypass_rows, update_resource(-1, name='other')]
        kw = {}
        if not sc.get('default_workers'):
            kw['num_processors'] = nw
        else:
            ctx.probe('default-num-processors')
        if byp is not None and not both:
            kw['resources'] = 'main'
            ctx.probe('bypass-resource')
        pred = predicate_fn(pk, n)
        if pred is not None:
            kw['predicate'] = pred
        links.append(upstream)
        links.append(parallelize(row_func, **kw))
        two = sc.get('two_stage')
        applied2 = {}
        if two:
            ctx.probe('two-parallelize-stages')

            def row_func2(row):
                applied2[row['_id']] = applied2.get(row['_id'], 0) + 1
                ctx.log('apply2', row['_id'])
                row['d'] = row['_id'] * 3 + 2
            kw2 = {'num_processors': two['workers']}
            if byp is not None and not both:
                kw2['resources'] = 'main'
            p2 = predicate_fn(two['predicate'], n)
            if p2 is not None:
                kw2['predicate'] = p2
            links.append(parallelize(row_func2, **kw2))
        links.append(sink)
        flow = Flow(*links)
        ctx.probe('strategy:' + (sc.get('strategy') or 'uniform'))
        if sc.get('exit_delays'):
            ctx.probe('slow-worker-exit')
        if n == 0:
            ctx.probe('empty-stream')
        if pk == 'nothing':
            ctx.probe('nothing-selected')
        if pk == 'late':
            ctx.probe('first-selected-late')
        if nw > n:
            ctx.probe('workers>rows')
        if sc.get('line'):
            ctx.probe('line-preempt-run')
            sys.settrace(s.tracefn)
        err = None
        res = None
        try:
            res = s.run_main(lambda: flow.results())
        except S.Deadlock as e:
            err = ('deadlock', str(e))
        except S.StepCap as e:
            err = ('stepcap', str(e))
        except Exception as e:  # noqa
            err = ('raised', '%s: %s' % (type(e).__name__, str(e)[:300]), getattr(getattr(e, 'cause', None), '__class__', type(e)).__name__)
            # the scheduler's verdict reaches main inside the program under test, which wraps it like any other exception
            if isinstance(s.failed, S.Deadlock):
                err = ('deadlock', str(s.failed))
            elif isinstance(s.failed, S.StepCap):
                err = ('stepcap', str(s.failed))
        except S._Abort:
            err = ('deadlock', str(s.failed)) if isinstance(s.failed, S.Deadlock) else ('stepcap', str(s.failed))
        finally:
            sys.settrace(None)
        ctx.extra['schedule'] = list(s.trace)
        ctx.extra['strategy'] = sc.get('strategy')
        ctx.count('sched_steps', s.steps)
        ctx.count('virtual_seconds', int(s.now))
        ctx.count('transfers', s.stats['transfers'])
        ctx.count('line_yields', s.stats['line_yields'])
        if s.now > 0:
            ctx.probe('clock-jumped')
        if s.join_timeouts:
            ctx.probe('join-timeout-expired', s.join_timeouts)
        S.guard_real_concurrency()
        if err is not None:
            if err[0] == 'deadlock':
                ctx.violation('deadlock', 'deadlock', 'run cannot make progress: ' + err[1], schedule_len=len(s.trace))
            if err[0] == 'stepcap' and s.now > 5000:
                ctx.violation('no-termination', 'livelock', 'still running after %d scheduler steps and %.0f virtual seconds (all injected stalls sum to < 400 s): %s' % (
                    s.steps, s.now, s.describe_blocked()))
            if err[0] == 'stepcap':
                from ..core.ctx import HarnessError
                raise HarnessError('step cap hit without a detected deadlock (bounded-liveness budget exceeded): ' + err[1])
            if 'unsimulated primitive' in err[1] or err[2] == 'HarnessError':
                from ..core.ctx import HarnessError
                raise HarnessError('the code under test used a concurrency primitive the simulator has no twin for (no verdict): ' + err[1])
            ctx.violation('raised', err[2], 'the run raised %s' % err[1])
        leaked = s.leaked()
        if leaked:
            ctx.violation('leaked-task', 'leak', 'the run returned but tasks are still alive: %r' % leaked)
        # exactly-once, against the sequential map
        rows = res[0]
        names = [r.name for r in res[1].resources]
        got = rows[names.index('main')]
        exp = {}
        for i in range(n):
            sel = selected(pk, n, i)
            exp[i] = {'_id': i, 'a': 'v%d' % i, 'c': (i * 7 + 1) if sel and i not in fn_raise else (None if i else -1), 'd': None if i else -1}
            if two and selected(two['predicate'], n, i):
                exp[i]['d'] = i * 3 + 2
        got_ids = sorted(r['_id'] for r in got)
        if got_ids != list(range(n)):
            missing = sorted(set(range(n)) - set(got_ids))
            dup = sorted(set(i for i in got_ids if got_ids.count(i) > 1))
            ctx.violation('multiset', 'missing' if missing else 'duplicate',
                          'delivered ids %r, expected each of 0..%d once (missing %r, duplicated %r)' % (got_ids, n - 1, missing, dup))
        for r in got:
            if r != exp[r['_id']]:
                ctx.violation('multiset', 'content', 'row %r delivered as %r, sequential map gives %r' % (r['_id'], r, exp[r['_id']]))
        for i in range(n):
            sel = selected(pk, n, i)
            c = applied.get(i, 0)
            if sel and c != 1:
                ctx.violation('applied-not-once', 'count', 'row function applied %d times to selected row %d' % (c, i))
            if not sel and c != 0:
                ctx.violation('applied-to-unselected', 'count', 'row function applied to unselected row %d' % i)
        if two:
            for i in range(n):
                sel2 = selected(two['predicate'], n, i)
                c2 = applied2.get(i, 0)
                if sel2 and c2 != 1:
                    ctx.violation('applied-not-once', 'count-stage2', 'second-stage row function applied %d times to selected row %d' % (c2, i))
                if not sel2 and c2 != 0:
                    ctx.violation('applied-to-unselected', 'count-stage2', 'second-stage row function applied to unselected row %d' % i)
        if byp is not None:
            other = rows[names.index('other')]
            want_other = [dict(r) for r in bypass_rows]
            if both:
                for r in want_other:
                    rid = r['_id']
                    if selected(pk, n, rid):
                        r['c'] = rid * 7 + 1
                    if two and selected(two['predicate'], n, rid):
                        r['d'] = rid * 3 + 2
                    c, c2 = applied.get(rid, 0), applied2.get(rid, 0)
                    if c != (1 if selected(pk, n, rid) else 0):
                        ctx.violation('applied-not-once', 'count-other-resource', 'row function applied %d times to row %d of the other resource (selected=%s)' % (c, rid, selected(pk, n, rid)))
                    if two and c2 != (1 if selected(two['predicate'], n, rid) else 0):
                        ctx.violation('applied-not-once', 'count-stage2-other-resource', 'second-stage row function applied %d times to row %d of the other resource' % (c2, rid))
                if sorted(other, key=lambda r: r.get('_id', 0)) != want_other:
                    ctx.violation('multiset', 'other-selected-resource', 'the other resource going through the same step was delivered as %r, sequential map gives %r' % (other, want_other))
            elif other != bypass_rows:
                ctx.violation('multiset', 'bypass-resource', 'unselected resource changed: %r' % other)
        if any(selected(pk, n, i) for i in range(n)):
            ctx.mark_nontrivial(s.schedule_digest())
        ctx.sample = {k: v for k, v in sc.items() if k != 'schedule'}
        ctx.sample['decisions'] = len(s.trace)

    def focus(self, sc, rec):
        ex = rec.get('extra') or {}
        if ex.get('schedule') is not None and sc.get('schedule') is None:
            new = dict(sc)
            new['schedule'] = ex['schedule']
            new['strategy'] = 'replay'
            return new
        return None


PROP = C18()
