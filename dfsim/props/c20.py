"""C20 - dump_to_sql leaves the table in the state its mode prescribes.

History machine: state = one SQLite file in the scratch directory; ops = DUMP(rows, mode, keys, batch, bloom,
flags), each in a fresh process.  Reference model: a list of rows plus the key constraint the table was created
with (a schema primaryKey becomes a SQL primary key, so an append that repeats a key is *rejected by the database*:
the model predicts that error and an unchanged table).
"""
import datetime
import decimal
import json
import os
import sqlite3

from ..core.prop import Prop
from ..gen import tables as T

FIELDS = [{'name': 'k', 'type': 'integer'}, {'name': 'k2', 'type': 'string'}, {'name': 'v', 'type': 'string'}, {'name': 'n', 'type': 'number'},
          {'name': 'b', 'type': 'boolean'}, {'name': 'd', 'type': 'date'}, {'name': 'arr', 'type': 'array'}, {'name': 'obj', 'type': 'object'}]


def norm(v, t):
    if v is None:
        return None
    if t in ('array', 'object'):
        if isinstance(v, str):
            try:
                v = json.loads(v)
            except ValueError:
                return {'unparsable': v}
        return json.loads(json.dumps(v, default=lambda x: float(x) if isinstance(x, decimal.Decimal) else str(x)))
    if t == 'boolean':
        return int(bool(v)) if not isinstance(v, str) else v
    if t == 'number':
        return float(v)
    if t == 'date':
        return v.isoformat() if isinstance(v, (datetime.date, datetime.datetime)) else str(v)
    return v


def _dump(payload, sub):
    import dataflows as DF
    op = payload['op']
    fields = payload['fields']
    names = [f['name'] for f in fields]
    class LazyRows:
        # rows are decoded when they are pulled and not kept by the source: their cells are short-lived objects (a generator
        # or a file source behaves like that; a list of dicts would keep every cell alive for the whole run)
        def __len__(self):
            return len(op['rows'])

        def __iter__(self):
            for row in op['rows']:
                yield dict(zip(names, [T.dec(c) for c in row]))
    rows = LazyRows()
    originals = [dict(zip(names, [T.dec(c) for c in row])) for row in op['rows']]
    sch = {'fields': [dict(f) for f in fields]}
    if payload.get('pk'):
        sch['primaryKey'] = payload['pk']
    desc = {'resources': [{'name': 'res', 'path': 'res.csv', 'profile': 'tabular-data-resource', 'schema': sch}]}
    tcfg = {'resource-name': 'res', 'mode': op['mode']}
    if op.get('update_keys') is not None:
        tcfg['update_keys'] = op['update_keys']
    elif op.get('update_keys_none'):
        tcfg['update_keys'] = None
    kw = {}
    if op.get('updated_column'):
        kw['updated_column'] = op['updated_column']
    d = DF.dump_to_sql({'tbl': tcfg}, engine='sqlite:///' + os.path.abspath('db.sqlite'), batch_size=op.get('batch_size', 1000),
                       use_bloom_filter=op.get('bloom', True), **kw)
    extra = {}
    if op.get('fail_first') is not None:
        # the same Flow object (hence the same dumper instance) is run twice: the first attempt dies at row j of its
        # source, the retry gets the whole stream
        import copy
        import gc

        class Boom(Exception):
            pass

        class Src:
            # an iterator that starts over after it ended (or died): what a re-run of the same Flow object pulls from
            runs = 0
            g = None

            def __iter__(self):
                return self

            def __next__(self):
                if self.g is None:
                    Src.runs += 1
                    self.g = self.gen(Src.runs == 1)
                try:
                    return next(self.g)
                except BaseException:
                    self.g = None
                    raise

            def gen(self, first):
                for i, row in enumerate(rows):
                    if first and i == op['fail_first']:
                        sub.fault('source-raise')
                        e = Boom('source row %d' % i)
                        e._dfsim_marker = 'source-raise'
                        raise e
                    yield copy.deepcopy(row)
                if first and op['fail_first'] >= len(rows):
                    sub.fault('source-raise')
                    e = Boom('source exhaustion')
                    e._dfsim_marker = 'source-raise'
                    raise e
        flow = DF.Flow(DF.load((desc, [Src()]), strip=False), d)       # (Src yields deep copies: short-lived cells as well)
        ds = None
        try:
            ds = flow.datastream()
            for r in ds.res_iter:
                for _ in r:
                    pass
            extra['first_failed'] = False
        except Exception as e:  # noqa
            c = e
            while c is not None and not getattr(c, '_dfsim_marker', None):
                c = c.__cause__ or c.__context__
            extra['first_failed'] = True
            extra['first_exc'] = None if c is not None else '%s: %s' % (type(e).__name__, str(e)[:200])
            ds = c = None
        gc.collect()
        extra['mid_table'] = read_table(os.path.abspath('db.sqlite'), fields)
        extra['mid_pk'] = read_table_pk(os.path.abspath('db.sqlite'))
        ds = flow.datastream()
    else:
        ds = DF.Flow(DF.load((desc, [iter(rows)]), strip=False), d).datastream()
    # the consumer does not keep the rows either: each one is normalised as it arrives
    types = {f['name']: f['type'] for f in fields}
    down, raw_changed, n_out = [], [], 0
    for res_i, res in enumerate(ds.res_iter):
        for ri, r in enumerate(res):
            if res_i:
                continue
            n_out += 1
            down.append({k: (norm(v, types[k]) if k in types else v) for k, v in r.items()})
            if ri < len(originals):
                o = originals[ri]
                for k in names:
                    if type(o[k]) is not type(r.get(k)) or o[k] != r.get(k):
                        raw_changed.append([k, repr(o[k])[:60], repr(r.get(k))[:60]])
                        break
            del r
    return dict(extra, down=down, raw_changed=raw_changed[:3], n=n_out)


def read_table(path, fields):
    if not os.path.exists(path):
        return None
    con = sqlite3.connect(path)
    try:
        cols = [r[1] for r in con.execute('PRAGMA table_info(tbl)')]
        if not cols:
            return None
        rows = con.execute('SELECT * FROM tbl').fetchall()
    finally:
        con.close()
    types = {f['name']: f['type'] for f in fields}
    return [{c: norm(v, types.get(c)) for c, v in zip(cols, row)} for row in rows]


def read_table_pk(path):
    """primary-key columns of the table as the database has it (None: no table, []: no primary key)"""
    if not os.path.exists(path):
        return None
    con = sqlite3.connect(path)
    try:
        info = list(con.execute('PRAGMA table_info(tbl)'))
    finally:
        con.close()
    if not info:
        return None
    return [r[1] for r in sorted((r for r in info if r[5]), key=lambda r: r[5])]


class C20(Prop):
    ID = 'C20'
    TITLE = 'dump_to_sql leaves the table in the state its mode prescribes'
    LEVEL = 'exploration'
    TECHNIQUE = 'deterministic simulation of dump histories over a durable SQLite file (one fresh process per dump) against an executable reference model of rewrite / append / update'
    SIMTIME_UNIT = 'dumps (forked pipeline executions against the same database file)'
    RULE = ('one evaluation = a history of 1-5 dumps into the same SQLite table: rows 0-8 over integer / string / number / boolean / date / array / object columns, mode per dump in '
            '{rewrite, append, update}, update keys explicit (1-2 columns) or taken from the primary key, update_keys configured but mode != update, batch_size in {1,2,1000}, bloom filter on/off, '
            'updated flag column on/off, repeated keys inside one stream. After every dump SELECT * is compared with the model as a multiset and the downstream rows with the input + truthful flags. '
            'Non-trivial = at least 2 dumps and an update or append onto existing rows; distinct = distinct (modes, key configuration, batch, bloom, sizes).')
    ASSUMPTIONS = ['SQLite only (what the sandbox offers); array / object cells are compared after JSON decoding (they are stored as JSON text)',
                   'a dump that the database rejects (primary-key conflict on append) is predicted by the model: the table is unchanged and the run raises']
    REAL_VS_STUB = {'real': ['dataflows dump_to_sql, tableschema-sql, SQLAlchemy, sqlite'], 'stub': ['none: the database file in the scratch directory is the durable state; each dump is a fresh process']}
    PROBES = ['mode-rewrite', 'mode-append', 'mode-update', 'update-first-dump-creates-table', 'update-keys-from-primary-key', 'update-keys-explicit', 'update-keys-given-as-None', 'update-keys-configured-but-not-update-mode',
              'repeated-key-in-stream', 'append-pk-conflict-predicted', 'array-object-columns', 'batch-1', 'bloom-off', 'updated-column', 'rewrite-changes-primary-key', 'retry-after-failed-attempt', 'failed-attempt-created-the-table', 'failed-attempt-changed-the-table', 'typed-values-inside-array-object-cells']
    TIERS = {'quick': dict(runs=500, wall=100, run_wall=300),
             'thorough': dict(runs=12000, wall=1700, run_wall=600)}
    SHRINK_FROZEN = ('fields',)

    def generate(self, rng, tier):
        k = rng.randrange(1, 5)
        extra = rng.sample(FIELDS[2:], k)
        fields = [FIELDS[0], FIELDS[1]] + sorted(extra, key=lambda f: f['name'])
        pk = rng.choice([None, None, ['k'], ['k', 'k2']])
        ops = []
        for i in range(rng.choice([1, 2, 2, 3, 4, 5])):
            n = rng.choice([0, 1, 2, 3, 5, 8])
            many = rng.random() < 0.15
            if many:
                n = rng.choice([30, 60, 150])       # more rows than a write batch, and than the 100-row inference sample
            rows = []
            for _ in range(n):
                row = [rng.choice([1, 2, 3, 4]) if not many else rng.randrange(1, 200), rng.choice(['p', 'q'])]
                for f in fields[2:]:
                    row.append(T.enc(self._val(rng, f['type'])))
                rows.append(row)
            if pk and rng.random() < 0.8:
                # mostly key-unique streams when the table has a primary key
                seen, uniq = set(), []
                for r in rows:
                    key = tuple(r[:len(pk)])
                    if key not in seen:
                        seen.add(key)
                        uniq.append(r)
                rows = uniq
            mode = rng.choice(['rewrite', 'append', 'update', 'update'])
            op = {'op': 'dump', 'rows': rows, 'mode': mode, 'batch_size': rng.choice([1, 2, 1000]), 'bloom': rng.random() < 0.6}
            if mode == 'update':
                if pk and rng.random() < 0.5:
                    # keys from the primary key; half of the time the spec says so explicitly ('update_keys': None). No extra draw.
                    if len(rows) % 2 == 0:
                        op['update_keys_none'] = True
                else:
                    op['update_keys'] = pk or rng.choice([['k'], ['k', 'k2']])
            elif rng.random() < 0.25:
                op['update_keys'] = rng.choice([['k'], ['k', 'k2']])      # documented as "only applicable for the update mode": must be ignored
            if rng.random() < 0.5:
                op['updated_column'] = 'upd'
            if rows and rng.random() < 0.2:
                op['fail_first'] = rng.randrange(len(rows))
            if mode == 'rewrite' and rng.random() < 0.4:
                # the rewritten table is created from *this* dump's schema: another primary key (or none) than before
                op['pk'] = rng.choice([None, ['k'], ['k', 'k2']])
                if op['pk']:
                    seen, uniq = set(), []
                    for r in rows:
                        key = tuple(r[:len(op['pk'])])
                        if key not in seen:
                            seen.add(key)
                            uniq.append(r)
                    op['rows'] = uniq
            ops.append(op)
        return {'fields': fields, 'pk': pk, 'ops': ops}

    def _val(self, rng, t):
        if rng.random() < 0.15:
            return None
        if t == 'string':
            return rng.choice(['a', 'b', 'c', 'é'])
        if t == 'number':
            return rng.choice([decimal.Decimal('1.5'), decimal.Decimal('-2.25'), decimal.Decimal('10')])
        if t == 'boolean':
            return rng.random() < 0.5
        if t == 'date':
            return datetime.date(rng.choice([1999, 2024]), rng.randrange(1, 13), rng.randrange(1, 29))
        nested = [datetime.date(2020, 1, 2), decimal.Decimal('2.5'), {'when': datetime.date(1999, 12, 31)}, [decimal.Decimal('0.25')]] if rng.random() < 0.4 else []
        if t == 'array':
            return [rng.choice([1, 'x', None, 2.5] + nested) for _ in range(rng.randrange(0, 3))]
        if t == 'object':
            return {rng.choice('ab'): rng.choice([1, 'x', None, [1]] + nested) for _ in range(rng.randrange(0, 3))}
        return rng.randrange(10)

    def execute(self, sc, ctx):
        fields, pk = sc['fields'], sc.get('pk')
        names = [f['name'] for f in fields]
        types = {f['name']: f['type'] for f in fields}
        d = os.path.join(ctx.scratch, 'w')
        os.makedirs(d)
        os.chdir(d)
        db = os.path.join(d, 'db.sqlite')
        model = None           # list of normalised rows, or None when the table does not exist
        table_pk = None
        if any(t in ('array', 'object') for t in types.values()):
            ctx.probe('array-object-columns')
            ao = [i for i, n in enumerate(names) if types[n] in ('array', 'object')]
            if any(k in json.dumps([row[i] for o in sc['ops'] for row in o['rows'] for i in ao if i < len(row)]) for k in ('"date"', '"d"')):
                ctx.probe('typed-values-inside-array-object-cells')
        nontrivial = False
        base_pk = pk
        for oi, op in enumerate(sc['ops']):
            pk = op['pk'] if 'pk' in op else base_pk
            if 'pk' in op:
                ctx.probe('rewrite-changes-primary-key')
            rows = [dict(zip(names, [norm(T.dec(c), types[n]) for n, c in zip(names, row)])) for row in op['rows']]
            mode = op['mode']
            ctx.probe('mode-' + mode)
            if op.get('batch_size') == 1:
                ctx.probe('batch-1')
            if not op.get('bloom', True):
                ctx.probe('bloom-off')
            if op.get('updated_column'):
                ctx.probe('updated-column')
            keys = None
            if mode == 'update':
                keys = op.get('update_keys') or pk
                ctx.probe('update-keys-explicit' if op.get('update_keys') else 'update-keys-from-primary-key')
                if not op.get('update_keys') and op.get('update_keys_none'):
                    ctx.probe('update-keys-given-as-None')
                if model is None:
                    ctx.probe('update-first-dump-creates-table')
            elif op.get('update_keys'):
                ctx.probe('update-keys-configured-but-not-update-mode')
            if mode == 'update' and not keys:
                ctx.discard('update without keys')
            label = 'dump#%d mode=%s keys=%r pk=%r batch=%r bloom=%r%s' % (oi, mode, op.get('update_keys'), pk, op.get('batch_size'), op.get('bloom'),
                                                                        '' if op.get('fail_first') is None else ' (retry of the same Flow object after its source failed at row %d)' % op['fail_first'])
            # ---- real
            res = ctx.subrun(_dump, {'op': op, 'fields': fields, 'pk': pk})        # pk: this dump's schema
            got_table = read_table(db, fields)
            if op.get('fail_first') is not None and res['status'] == 'ok':
                ctx.probe('retry-after-failed-attempt')
                v0 = res['value']
                if not v0.get('first_failed'):
                    ctx.violation('unexpected-error', 'swallowed', 'the source raised at row %d but the first attempt returned normally; %s' % (op['fail_first'], label))
                if v0.get('first_exc'):
                    ctx.violation('unexpected-error', 'first-attempt', 'the first attempt raised %s instead of the injected source error; %s' % (v0['first_exc'], label))
                # the property says nothing about the table after a failed dump: the model continues from what the failed attempt left
                mid = v0.get('mid_table')
                if mid is not None and model is None:
                    ctx.probe('failed-attempt-created-the-table')
                if mid is not None and model is not None and sorted(json.dumps(x, sort_keys=True) for x in mid) != sorted(json.dumps(x, sort_keys=True) for x in model):
                    ctx.probe('failed-attempt-changed-the-table')
                model = [dict(x) for x in mid] if mid is not None else None
                # ... including the key constraint the table now has (a failed rewrite may or may not have re-created it)
                table_pk = (v0.get('mid_pk') or None) if mid is not None else None
            # ---- model
            expect_error = False
            if mode == 'rewrite' or model is None:
                base, cur_pk = ([] if mode == 'rewrite' or model is None else list(model)), pk
                if mode == 'rewrite' or model is None:
                    table_pk_new = pk
            else:
                base, table_pk_new = list(model), table_pk
            new = list(base)
            flags = []
            if mode in ('rewrite', 'append'):
                for r in rows:
                    new.append(dict(r))
                    flags.append(False)
                eff_pk = table_pk_new
                if eff_pk:
                    ks = [tuple(r[k] for k in eff_pk) for r in new]
                    if len(set(ks)) != len(ks):
                        expect_error = True
                        ctx.probe('append-pk-conflict-predicted')
            else:
                for r in rows:
                    hit = [x for x in new if all(x[k] == r[k] for k in keys)]
                    if hit:
                        for x in hit:
                            x.update(r)
                        flags.append(True)
                    else:
                        new.append(dict(r))
                        flags.append(False)
                if len(set(tuple(r[k] for k in keys) for r in rows)) < len(rows):
                    ctx.probe('repeated-key-in-stream')
                eff_pk = table_pk_new
                if eff_pk:
                    ks = [tuple(r[k] for k in eff_pk) for r in new]
                    if len(set(ks)) != len(ks):
                        expect_error = True
            desc = '%s; history=%s' % (label, json.dumps([{k: v for k, v in o.items() if k != 'rows'} for o in sc['ops'][:oi + 1]])[:600])
            if expect_error:
                if res['status'] == 'ok':
                    ctx.violation('unexpected-error', 'no-error', 'the model predicts a primary-key conflict but the dump succeeded; %s' % desc)
                # table unchanged (single transaction) - the property says nothing about the state after a failed dump; re-synchronise from the table
                model = [dict(x) for x in got_table] if got_table is not None else None
                # rows and key constraint as the database has them now (a rejected rewrite may have re-created the table first)
                table_pk = (read_table_pk(db) or None) if model is not None else None
                continue
            if res['status'] != 'ok':
                cause = res['exc'].get('cause') or res['exc']
                ctx.violation('unexpected-error', cause['type'], 'dump raised %s: %s; %s' % (cause['type'], cause['str'][:300], desc))
            v = res['value']
            table_pk = table_pk_new
            # table state, as a multiset
            if got_table is None:
                ctx.violation('table-state', 'missing', 'no table after the dump; %s' % desc)
            cols = [c for c in names]
            a = sorted(json.dumps({c: x.get(c) for c in cols}, sort_keys=True) for x in got_table)
            b = sorted(json.dumps({c: x.get(c) for c in cols}, sort_keys=True) for x in new)
            if a != b:
                ctx.violation('table-state', mode, 'table holds %d rows %s, the model %d rows %s; dumped rows %s; %s' % (
                    len(a), json.dumps(a)[:500], len(b), json.dumps(b)[:500], json.dumps(rows)[:300], desc), mode=mode, first_dump=model is None)
            if mode == 'update' and keys:
                ks = [tuple(x.get(k) for k in keys) for x in got_table]
                base_ks = [tuple(x.get(k) for k in keys) for x in base]
                if len(set(base_ks)) == len(base_ks) and len(set(ks)) != len(ks):
                    ctx.violation('table-state', 'one-row-per-key', 'update left several rows for one key %r; %s' % (keys, desc))
            # downstream rows
            if v['n'] != len(rows):
                ctx.violation('downstream-rows', 'count', '%d rows continue downstream, %d were dumped; %s' % (v['n'], len(rows), desc))
            for i, (g, w) in enumerate(zip(v['down'], rows)):
                if {k: g.get(k) for k in names} != w:
                    ctx.violation('downstream-rows', 'content', 'downstream row %d is %s, the dumped row was %s; %s' % (i, json.dumps(g)[:300], json.dumps(w)[:300], desc))
                if op.get('updated_column'):
                    if g.get('upd') != flags[i]:
                        ctx.violation('updated-flag', str(flags[i]), 'downstream row %d carries %s=%r, truthfully it %s an existing row; %s' % (
                            i, op['updated_column'], g.get('upd'), 'replaced' if flags[i] else 'did not replace', desc), mode=mode)
            if v['raw_changed']:
                pending = getattr(self, '_pending', None)
                self._pending_raw = ('downstream-rows', 'normalised-in-place', 'rows continue downstream with array / object cells replaced by their JSON text (e.g. field %s: %s -> %s); %s' % (
                    v['raw_changed'][0][0], v['raw_changed'][0][1], v['raw_changed'][0][2], desc), {'field': v['raw_changed'][0][0], 'ftype': types.get(v['raw_changed'][0][0])})
            if oi > 0 and model and mode in ('append', 'update'):
                nontrivial = True
            model = new
        if nontrivial:
            ctx.nt([o['mode'] for o in sc['ops']], [bool(o.get('update_keys')) for o in sc['ops']], pk, [o.get('batch_size') for o in sc['ops']], [len(o['rows']) for o in sc['ops']])
        ctx.sample = {'fields': [(f['name'], f['type']) for f in fields], 'pk': pk, 'ops': [{k: (v if k != 'rows' else len(v)) for k, v in o.items()} for o in sc['ops']]}
        p = getattr(self, '_pending_raw', None)
        if p:
            self._pending_raw = None
            ctx.violation(p[0], p[1], p[2], **p[3])


PROP = C20()
