"""C19 - a dump descriptor is written only after its data files are complete.

One evaluation = one workload dumped with dump_to_path into a fresh directory, killed at seam op k
(before / after / torn) for a sample of k (quick) or every k (sweep); after each kill the surviving
directory is inspected:
   if out/datapackage.json exists and parses as JSON then every resource it lists exists under the
   recorded path, with the recorded byte size and the recorded MD5.
"""
import hashlib
import json
import os
import shutil

from ..core.prop import Prop
from ..gen import tables as T
from ..seams.fs import FsSeam

WHENS = ['before', 'after', 'torn']


def _setup(plan, bufsize, copy_bufsize):
    def setup(sub):
        seam = FsSeam(sub, os.getcwd(), plan=plan, bufsize=bufsize, copy_bufsize=copy_bufsize)
        seam.install()
        sub.seam = seam
    return setup


def _dump(payload, sub):
    from dataflows import Flow, dump_to_path
    links = [T.rows_of(t) for t in payload['tables']]
    opts = dict(payload.get('opts') or {})
    links.append(dump_to_path('out', **opts))
    # (threads the dumper might start by itself run under the seeded scheduler - ambient seam, installed by ctx.subrun -
    # and are interleaved, and killed, between file ops)
    Flow(*links).process()
    return {'seam_ops': sub.seam.n, 'ops': [list(o) for o in sub.seam.ops]}


def inspect(outdir):
    """-> (state, problems): state in absent|unparseable|ok ; problems = list of (clause, message)"""
    p = os.path.join(outdir, 'datapackage.json')
    if not os.path.exists(p):
        return 'absent', []
    try:
        with open(p, 'rb') as f:
            desc = json.loads(f.read().decode('utf-8'))
    except ValueError:
        return 'unparseable', []
    probs = []
    if not isinstance(desc, dict):
        return 'unparseable', []
    for res in desc.get('resources', []):
        path = res.get('path')
        if isinstance(path, list):
            path = path[0]
        fp = os.path.join(outdir, path)
        if not os.path.isfile(fp):
            probs.append(('descriptor-before-data:missing', 'descriptor lists %r which does not exist' % path))
            continue
        with open(fp, 'rb') as f:
            data = f.read()
        if 'bytes' in res and res['bytes'] != len(data):
            probs.append(('descriptor-before-data:size', 'descriptor records %r bytes for %r, the file has %d' % (res['bytes'], path, len(data))))
        if 'hash' in res and res['hash'] != hashlib.md5(data).hexdigest():
            probs.append(('descriptor-before-data:hash', 'descriptor records md5 %s for %r, the file has %s' % (res['hash'], path, hashlib.md5(data).hexdigest())))
    return 'ok', probs


class C19(Prop):
    ID = 'C19'
    TITLE = 'A dump descriptor is written only after its data files are complete'
    LEVEL = 'fault_enumeration'
    TECHNIQUE = 'deterministic simulation: kill at every file-system seam op of dump_to_path (fork + os._exit), invariant over the surviving directory'
    SIMTIME_UNIT = 'seam ops (raw write/close/rename/unlink/chmod/mkdir calls under the scratch root)'
    RULE = ('one evaluation = one seeded workload (1-3 resources x 0-40 rows, csv|json, add_filehash_to_path, pretty_descriptor, file-buffer and '
            'copy-buffer knobs so that files span several writes) dumped into a fresh directory and killed at seam op k in mode before|after|torn: '
            'quick samples ~8 k per workload plus a few complete sweeps of small workloads, thorough sweeps every k x mode for a quarter of the workloads. '
            'Non-trivial = the kill fired; distinct = distinct (kind of op killed, mode, which file, descriptor state after the kill, set of files present, workload shape).')
    ASSUMPTIONS = ['process death = os._exit at a system-call boundary; no power-loss model (dataflows never fsyncs; the property speaks of the process being interrupted)',
                   'only dump_to_path (the property names it); zip has no separate descriptor file']
    REAL_VS_STUB = {'real': ['dataflows dump_to_path / FileDumper / CSV+JSON writers', 'shutil.copy (python copy loop, sendfile disabled so that the copy passes the seam)', 'CPython buffering', 'tmpfs'],
                    'stub': ['io.FileIO subclass (counts / tears raw writes)', 'tempfile.NamedTemporaryFile re-implemented over the seam with deterministic names', 'os.rename/unlink/chmod/makedirs wrappers']}
    PROBES = ['kill-during-descriptor-copy', 'descriptor-parseable-after-kill', 'kill-during-data-copy', 'kill-between-last-data-file-and-descriptor',
              'torn-write-landed', 'sweep-complete', 'descriptor-unparseable-after-kill', 'multi-write-descriptor']
    TIERS = {'quick': dict(runs=1200, wall=100, run_wall=300),
             'thorough': dict(runs=2400, wall=1500, run_wall=900)}
    SHRINK_FROZEN = ('fields',)

    def generate(self, rng, tier):
        ntab = rng.choice([1, 1, 2, 2, 3])
        tabs = []
        idc = 0
        for i in range(ntab):
            n = rng.choice([0, 1, 2, 3, 5, 12, 40])
            types = [rng.choice(['string', 'integer', 'number', 'boolean', 'date']) for _ in range(rng.randrange(1, 4))]
            t = T.gen_table(rng, 'res_%d' % (i + 1), n, types, id_start=idc, words=T.WORDS if rng.random() < 0.3 else T.SIMPLE_WORDS)
            idc += n
            tabs.append(t)
        opts = {'format': rng.choice(['csv', 'csv', 'json'])}
        if rng.random() < 0.25:
            opts['add_filehash_to_path'] = True
        if rng.random() < 0.3:
            opts['pretty_descriptor'] = False
        sc = {'tables': tabs, 'opts': opts, 'bufsize': rng.choice([None, 32, 128, 1024]), 'copy_bufsize': rng.choice([None, 64, 256, 4096])}
        sweep_p = 0.03 if tier == 'quick' else 0.25
        if rng.random() < sweep_p:
            if tier == 'quick':
                sc['tables'] = [dict(t, rows=t['rows'][:3]) for t in tabs[:2]]
            sc['points'] = 'all'
        else:
            pts = []
            for _ in range(8):
                r = rng.random()
                if r < 0.35:    # near the end: data copy of the last file, descriptor temp write, descriptor copy
                    pts.append({'back': rng.randrange(0, 14), 'when': rng.choice(WHENS), 'frac': round(rng.random(), 3)})
                else:
                    pts.append({'kf': round(rng.random(), 4), 'when': rng.choice(WHENS), 'frac': round(rng.random(), 3)})
            sc['points'] = pts
        return sc

    def execute(self, sc, ctx):
        if not sc.get('tables'):
            ctx.discard('no tables')
        payload = {'tables': sc['tables'], 'opts': sc.get('opts') or {}}
        bufsize, cbs = sc.get('bufsize'), sc.get('copy_bufsize')
        ref_dir = os.path.join(ctx.scratch, 'ref')
        os.makedirs(ref_dir)
        os.chdir(ref_dir)
        ref = ctx.subrun(_dump, payload, setup=_setup(None, bufsize, cbs))
        if ref['status'] != 'ok':
            ctx.discard('reference dump raised: %s' % json.dumps(ref.get('exc'))[:300])
        K = ref['value']['seam_ops']
        ops = ref['value']['ops']
        state, probs = inspect(os.path.join(ref_dir, 'out'))
        if state != 'ok':
            ctx.violation('descriptor-missing-after-complete-dump', state, 'uninterrupted dump left descriptor state %r' % state)
        if probs:
            ctx.violation(probs[0][0], 'complete-dump', 'after an uninterrupted dump: ' + probs[0][1], opts=payload['opts'], uninterrupted=True)
        desc_writes = [o for o in ops if o[1] == 'write' and o[2] == 'out/datapackage.json']
        if len(desc_writes) > 1:
            ctx.probe('multi-write-descriptor')
        data_files = sorted(set(o[2] for o in ops if o[2].startswith('out/') and o[2] != 'out/datapackage.json' and o[1] == 'write'))
        last_data_close = max([o[0] for o in ops if o[1] == 'close' and o[2] in data_files] or [0])
        first_desc_op = min([o[0] for o in ops if o[2] == 'out/datapackage.json'] or [K + 1])
        shape = [len(t['rows']) for t in sc['tables']]

        if sc['points'] == 'all':
            points = []
            for k in range(1, K + 1):
                for when in WHENS:
                    if when == 'torn' and not (ops[k - 1][1] == 'write' and ops[k - 1][3] > 1):
                        continue
                    points.append({'k': k, 'when': when, 'frac': 0.5})
        else:
            points = []
            for p in sc['points']:
                if 'k' in p:
                    k = p['k']
                elif 'back' in p:
                    k = max(1, K - p['back'])
                else:
                    k = max(1, min(K, 1 + int(p['kf'] * K)))
                points.append({'k': k, 'when': p['when'], 'frac': p.get('frac', 0.5)})
        seen = set()
        for n, pt in enumerate(points):
            key = (pt['k'], pt['when'], pt['frac'] if pt['when'] == 'torn' else 0)
            if key in seen:
                continue
            seen.add(key)
            d = os.path.join(ctx.scratch, 'w%d' % n)
            os.makedirs(d)
            os.chdir(d)
            r = ctx.subrun(_dump, payload, setup=_setup([dict(pt, kind='crash')], bufsize, cbs))
            if r['status'] != 'crash':
                ctx.probe('kill-not-reached')
                os.chdir(ctx.scratch)
                shutil.rmtree(d, ignore_errors=True)
                continue
            k = pt['k']
            op = ops[k - 1] if k <= len(ops) else [k, '?', '?', 0]
            state, probs = inspect(os.path.join(d, 'out'))
            files = sorted(f for f in _ls(os.path.join(d, 'out')))
            if op[2] == 'out/datapackage.json':
                ctx.probe('kill-during-descriptor-copy')
            if op[2] in data_files:
                ctx.probe('kill-during-data-copy')
            if last_data_close < k < first_desc_op or (k == last_data_close and pt['when'] == 'after'):
                ctx.probe('kill-between-last-data-file-and-descriptor')
            if pt['when'] == 'torn':
                ctx.probe('torn-write-landed')
            ctx.probe({'ok': 'descriptor-parseable-after-kill', 'unparseable': 'descriptor-unparseable-after-kill', 'absent': 'descriptor-absent-after-kill'}[state])
            fclass = 'descriptor' if op[2] == 'out/datapackage.json' else 'data' if op[2] in data_files else 'temp' if op[2].startswith('tmp/') else 'dir'
            ctx.nt('kill', op[1], pt['when'], fclass, state, len(files), shape, payload['opts'].get('format'))
            if probs:
                ctx.violation(probs[0][0], 'after-kill', 'killed at seam op %d (%s %s, %s): %s; files present: %r' % (
                    k, op[1], op[2], pt['when'], probs[0][1], files), point=pt, opts=payload['opts'])
            os.chdir(ctx.scratch)
            shutil.rmtree(d, ignore_errors=True)
        if sc['points'] == 'all':
            ctx.probe('sweep-complete')
            ctx.count('sweep_points', len(points))
        ctx.sample = {'rows_per_resource': shape, 'opts': payload['opts'], 'bufsize': bufsize, 'copy_bufsize': cbs,
                      'points': sc['points'] if sc['points'] == 'all' else points[:4], 'seam_ops_of_complete_dump': K}

    def focus(self, sc, rec):
        pt = (rec.get('detail') or {}).get('point')
        if isinstance(pt, dict) and 'k' in pt:
            new = dict(sc)
            new['points'] = [{'k': pt['k'], 'when': pt['when'], 'frac': pt.get('frac', 0.5) if not isinstance(pt.get('frac'), dict) else float(pt['frac']['~f'])}]
            return new
        return None


def _ls(d):
    out = []
    for dp, dn, fn in os.walk(d):
        for f in fn:
            out.append(os.path.relpath(os.path.join(dp, f), d))
    return out


PROP = C19()
