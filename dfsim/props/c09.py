"""C09 - dump statistics describe the bytes on disk.

The simulated disk (scratch directory / zip members) is the ground truth the recorded numbers are compared
with; each scenario is dumped twice, the second time in another process under a different TZ, umask, cwd and
temp directory, and the recorded hashes must agree.
"""
import csv
import hashlib
import io
import json
import os
import zipfile

from ..core.prop import Prop
from ..gen import tables as T

DEFAULT_COUNTERS = {'datapackage-rowcount': 'count_of_rows', 'datapackage-bytes': 'bytes', 'datapackage-hash': 'hash',
                    'resource-rowcount': 'count_of_rows', 'resource-bytes': 'bytes', 'resource-hash': 'hash'}


def get_attr(obj, prop):
    if prop is None:
        return None
    for p in prop.split('.'):
        if not isinstance(obj, dict) or p not in obj:
            return None
        obj = obj[p]
    return obj


def _dump(payload, sub):
    import time as _time
    env = payload.get('env') or {}
    if env.get('tz'):
        os.environ['TZ'] = env['tz']
        _time.tzset()
    if env.get('umask') is not None:
        os.umask(env['umask'])
    if env.get('tmp'):
        import tempfile
        os.makedirs(env['tmp'], exist_ok=True)
        tempfile.tempdir = os.path.abspath(env['tmp'])
    if env.get('cwd'):
        os.makedirs(env['cwd'], exist_ok=True)
        os.chdir(env['cwd'])
    from dataflows import Flow, dump_to_path, dump_to_zip, filter_rows
    from ..core.ctx import jsonable
    if payload.get('clock') is not None:
        install_clock(payload['clock'], sub)
    links = []
    if payload.get('redump_from'):
        # the data comes from a package dumped earlier (its descriptor already carries that dump's counters)
        from dataflows import load
        src = payload['redump_from']
        links.append(load(src, format='datapackage') if src.endswith('.zip') else load(os.path.join(src, 'datapackage.json')))
    else:
        for t in payload['tables']:
            links.append(T.rows_of(t))
    for i in (payload.get('empty') or []) if not payload.get('redump_from') else []:
        # an empty resource that still has a schema: filter everything out of resource i
        links.append(filter_rows(lambda row: False, resources=i))
    opts = dict(payload['opts'])
    cor = payload.get('corrupt') or []
    if cor and not payload.get('redump_from'):
        # invalid lexical values arriving at the dumper (let through upstream by on_error=ignore); the dumper's own
        # validator is told to drop them: dropped rows are not written and must not be counted
        from dataflows import set_type, schema_validator
        srcs = links[:len(payload['tables'])]
        cols = set()
        for ti, ri, name in cor:
            if ti < len(srcs) and ri < len(srcs[ti]) and name in srcs[ti][ri]:
                srcs[ti][ri][name] = 'bad!'
                cols.add((ti, name))
        for ti, name in sorted(cols):
            links.append(set_type(name, type='integer', resources=ti, on_error=schema_validator.ignore))
        opts['validator_options'] = {'on_error': schema_validator.drop}
    if payload.get('extra_key') and not payload.get('redump_from'):
        # a row step adds a key the schema does not declare to some rows: the writer cannot serialise those rows - the dump
        # has to fail as a whole (no descriptor) or describe exactly what it wrote
        def add_undeclared(row):
            if row.get('_id') is not None and row['_id'] % 3 == 0:
                row['undeclared_key'] = 1
        links.append(add_undeclared)
    if payload.get('title') and not payload.get('redump_from'):
        # multi-byte text in the descriptor itself (bytes != characters)
        from dataflows import update_package
        links.append(update_package(title=payload['title']))
    target = payload['target']
    out = os.path.abspath(payload['out'])
    if payload.get('prior') and not payload.get('redump_from'):
        # history: an earlier dump of other data (each resource without its first row) went to the same place
        # (dump_to_zip opens its file when it is constructed: the earlier dumper is built, run and finished first)
        prior = [T.rows_of(t)[1:] for t in payload['tables']]
        if any(prior):
            pd = dump_to_path(out, **opts) if target == 'path' else dump_to_zip(out, **opts)
            Flow(*(prior + [pd])).process()
            sub.count('prior_dumps')
    if target == 'path':
        links.append(dump_to_path(out, **opts))
    else:
        links.append(dump_to_zip(out, **opts))
    after = payload.get('after')
    if after in ('delete_first', 'delete_last'):
        # the flow goes on: a later step throws a dumped resource away (the dump describes what entered the dumper)
        from dataflows import delete_resource
        links.append(delete_resource(0 if after == 'delete_first' else -1))
    elif after == 'lockstep':
        # a later step reads all the dumped resources side by side, one row of each at a time (a merge / compare step)
        def lockstep(package):
            yield package.pkg
            # exactly as many resources as the descriptor lists are requested - the resource iterator itself is only
            # exhausted after the rows were read (asking for "one more resource" is what tells the upstream steps that
            # the stream is over; a consumer that does that before reading any row is outside dataflows' streaming model)
            outer = iter(package)
            its = [iter(next(outer)) for _ in package.pkg.descriptor['resources']]
            bufs = [[] for _ in its]
            live = list(range(len(its)))
            while live:
                for i in list(live):
                    try:
                        bufs[i].append(next(its[i]))
                    except StopIteration:
                        live.remove(i)
            for _ in outer:
                pass
            for b in bufs:
                yield iter(b)
        links.append(lockstep)
    flow = Flow(*links)
    dp, stats = flow.process()
    if payload.get('same_flow_twice') and target == 'path':
        # the same Flow object (same dumper instance) runs again into the same directory: its counters start over
        dp, stats = flow.process()
        sub.count('same_flow_reruns')
    return {'stats': jsonable(stats)}


def install_clock(now, sub):
    """Clock seam: every wall-clock read on the dump path (zip entry stamps, workbook created / modified stamps)
    answers the simulated instant ``now`` (epoch seconds)."""
    import datetime as real_datetime
    import time as real_time
    import types
    import zipfile as zf
    reads = {'n': 0}

    def fake_time():
        reads['n'] += 1
        sub.count('clock_reads')
        return float(now)
    tns = types.SimpleNamespace(**{k: getattr(real_time, k) for k in dir(real_time) if not k.startswith('__')})
    tns.time = fake_time
    # files written during the dump carry the simulated instant as their modification time (openpyxl adds worksheet
    # parts to the container from temporary files: zipfile stamps those entries with localtime(st_mtime))
    tns.localtime = lambda secs=None: real_time.localtime(fake_time())
    zf.time = tns

    class SimDateTime(real_datetime.datetime):
        @classmethod
        def now(cls, tz=None):
            reads['n'] += 1
            sub.count('clock_reads')
            return real_datetime.datetime.fromtimestamp(now, tz)

        @classmethod
        def utcnow(cls):
            reads['n'] += 1
            sub.count('clock_reads')
            return real_datetime.datetime.fromtimestamp(now, real_datetime.timezone.utc).replace(tzinfo=None)
    dns = types.SimpleNamespace(**{k: getattr(real_datetime, k) for k in dir(real_datetime) if not k.startswith('__')})
    dns.datetime = SimDateTime
    try:
        import openpyxl.packaging.core as opc
        import openpyxl.writer.excel as owe
        opc.datetime = dns
        owe.datetime = dns
    except ImportError:
        pass
    return reads


def read_package(target, out):
    if target == 'path':
        def rd(p):
            with open(os.path.join(out, p), 'rb') as f:
                return f.read()

        def ex(p):
            return os.path.isfile(os.path.join(out, p))
    else:
        z = zipfile.ZipFile(out)
        names = set(z.namelist())

        def rd(p):
            return z.read(p)

        def ex(p):
            return p in names
    desc = json.loads(rd('datapackage.json').decode('utf-8'))
    return desc, rd, ex, len(rd('datapackage.json'))


def count_rows(fmt, data):
    if fmt == 'excel':
        import openpyxl
        wb = openpyxl.load_workbook(io.BytesIO(data), read_only=False)
        try:
            ws = wb.worksheets[0]
            rows = [r for r in ws.iter_rows(values_only=True)]
            return max(0, len(rows) - 1)
        finally:
            wb.close()
    text = data.decode('utf-8')
    if fmt == 'json':
        return len(json.loads(text))
    rows = list(csv.reader(io.StringIO(text, newline='')))
    return max(0, len(rows) - 1)


class C09(Prop):
    ID = 'C09'
    TITLE = 'Dump statistics describe the bytes on disk'
    LEVEL = 'exploration'
    TECHNIQUE = 'deterministic simulation over durable state: recorded counters vs the bytes that reached the (scratch) disk / zip, two dumps in separate processes under different ambient TZ / umask / cwd / tempdir and simulated wall-clock instants'
    SIMTIME_UNIT = 'dumps (forked pipeline executions)'
    RULE = ('one evaluation = 1-3 resources (0-40 rows, multi-byte text, nulls, empty resources) x csv|json|excel x path|zip x counters default / renamed / dotted / partly disabled x '
            'add_filehash_to_path x pretty_descriptor, dumped twice (second dump: other process, TZ, umask, cwd, temp dir, and a later simulated wall-clock instant). Non-trivial = at least one non-empty resource; '
            'distinct = distinct (format, target, counter configuration, options, resource sizes).')
    ASSUMPTIONS = ['number of data rows of a csv file = records parsed by the stdlib csv module minus the header; of a json file = length of the top-level array',
                   'package totals are compared with the sums over the resources recorded in the same written descriptor']
    REAL_VS_STUB = {'real': ['dataflows dumpers, csv/json writers, zipfile, the file system'], 'stub': ['ambient environment (TZ, umask, cwd, tempdir) set per dump']}
    PROBES = ['zip-target', 'json-format', 'counters-renamed', 'counters-dotted', 'counter-disabled', 'filehash-in-path', 'empty-resource', 'multibyte-text', 'multibyte-text-in-descriptor', 'compact-descriptor', 'dumper-drops-invalid-rows', 're-dump-of-a-loaded-package', 'excel-format', 'second-dump-at-a-later-instant', 'earlier-dump-of-other-data-in-the-same-place', 'same-flow-object-dumps-twice', 'a-later-step-deletes-a-dumped-resource', 'a-later-step-reads-the-dumped-resources-in-lockstep', 'rows-the-writer-cannot-serialise']
    TIERS = {'quick': dict(runs=700, wall=100, run_wall=300),
             'thorough': dict(runs=20000, wall=1700, run_wall=600)}
    SHRINK_FROZEN = ('fields',)
    SHRINK_OPTIONAL = ('counters', 'add_filehash_to_path', 'pretty_descriptor')

    def generate(self, rng, tier):
        ntab = rng.choice([1, 1, 2, 3])
        tabs, idc = [], 0
        for i in range(ntab):
            n = rng.choice([1, 1, 2, 3, 12, 40])
            types = [rng.choice(['string', 'integer', 'number', 'boolean', 'date']) for _ in range(rng.randrange(1, 4))]
            tabs.append(T.gen_table(rng, 'res_%d' % (i + 1), n, types, id_start=idc, words=T.WORDS if rng.random() < 0.6 else T.SIMPLE_WORDS))
            idc += n
        empty = [i for i in range(ntab) if rng.random() < 0.2]
        opts = {'format': rng.choice(['csv', 'csv', 'json'])}
        if rng.random() < 0.12:
            opts['format'] = 'excel'
        r = rng.random()
        if r < 0.25:
            opts['counters'] = {'datapackage-rowcount': 'rows', 'datapackage-bytes': 'size', 'datapackage-hash': 'md5', 'resource-rowcount': 'rows', 'resource-bytes': 'size', 'resource-hash': 'md5'}
        elif r < 0.45:
            opts['counters'] = {'datapackage-rowcount': 'stats.rows', 'datapackage-bytes': 'stats.size', 'datapackage-hash': 'stats.x.md5',
                                'resource-rowcount': 'stats.rows', 'resource-bytes': 'stats.size', 'resource-hash': 'stats.md5'}
        elif r < 0.65:
            c = {}
            for k in DEFAULT_COUNTERS:
                if rng.random() < 0.35:
                    c[k] = None
            opts['counters'] = c
        if rng.random() < 0.3:
            opts['add_filehash_to_path'] = True
        if rng.random() < 0.3:
            opts['pretty_descriptor'] = False
        corrupt = []
        if rng.random() < 0.15:
            for ti, t in enumerate(tabs):
                ints = [f['name'] for f in t['fields'] if f['type'] == 'integer' and f['name'] != '_id']
                if ints and t['rows'] and ti not in empty:
                    for _ in range(rng.randrange(1, 3)):
                        corrupt.append([ti, rng.randrange(len(t['rows'])), rng.choice(ints)])
        env2 = {'tz': rng.choice(['UTC', 'America/New_York', 'Asia/Kolkata', 'Pacific/Chatham']), 'umask': rng.choice([0o022, 0o077, 0o002]), 'cwd': 'elsewhere', 'tmp': 'othertmp'}
        # simulated wall clock of the two dumps (epoch seconds): the second dump happens later - a second, an hour, a month
        t1 = rng.choice([315619200, 951782400, 1700000000, 1735689599, 2524607999])      # 1980 (the zip epoch) .. 2049
        clock = [t1, t1 + rng.choice([1, 2, 3600, 86400 * 30])]
        if opts['format'] == 'excel' and rng.random() < 0.6:
            # known finding C09-excel-hash-depends-on-clock: most excel scenarios dump twice at the same instant, in the same zone
            clock[1] = t1
            env2['tz'] = None
        return {'tables': tabs, 'empty': empty, 'opts': opts, 'corrupt': corrupt, 'redump': rng.random() < 0.3 and opts['format'] == 'csv', 'target': rng.choice(['path', 'path', 'zip']),
                'title': rng.choice([None, None, 'plain', 'Données – 数据 \U0001F600']), 'clock': clock, 'env2': env2, 'prior': rng.random() < 0.25, 'same_flow_twice': rng.random() < 0.15,
                'after': rng.choice([None, None, None, None, 'delete_first', 'delete_last', 'lockstep', 'lockstep']), 'extra_key': rng.random() < 0.05}

    def execute(self, sc, ctx):
        if not sc.get('tables'):
            ctx.discard('no tables')
        opts = sc.get('opts') or {}
        target = sc.get('target', 'path')
        counters = dict(DEFAULT_COUNTERS)
        counters.update(opts.get('counters') or {})
        fmt = opts.get('format', 'csv')
        if target == 'zip':
            ctx.probe('zip-target')
        if fmt == 'json':
            ctx.probe('json-format')
        if fmt == 'excel':
            ctx.probe('excel-format')
        if sc.get('extra_key'):
            ctx.probe('rows-the-writer-cannot-serialise')
        if sc.get('after') in ('delete_first', 'delete_last'):
            ctx.probe('a-later-step-deletes-a-dumped-resource')
        if sc.get('after') == 'lockstep' and len(sc['tables']) > 1:
            ctx.probe('a-later-step-reads-the-dumped-resources-in-lockstep')
        if sc.get('same_flow_twice') and target == 'path':
            ctx.probe('same-flow-object-dumps-twice')
        if sc.get('prior') and any(len(t['rows']) > 1 for t in sc['tables']):
            ctx.probe('earlier-dump-of-other-data-in-the-same-place')
        cc = opts.get('counters') or {}
        if any(v and '.' in v for v in cc.values()):
            ctx.probe('counters-dotted')
        elif any(v for v in cc.values()):
            ctx.probe('counters-renamed')
        if any(v is None for v in cc.values()):
            ctx.probe('counter-disabled')
        if opts.get('add_filehash_to_path'):
            ctx.probe('filehash-in-path')
        if opts.get('pretty_descriptor') is False:
            ctx.probe('compact-descriptor')
        if sc.get('empty'):
            ctx.probe('empty-resource')
        if sc.get('corrupt'):
            ctx.probe('dumper-drops-invalid-rows')
        if any(isinstance(c, str) and any(ord(ch) > 127 for ch in c) for t in sc['tables'] for row in t['rows'] for c in row):
            ctx.probe('multibyte-text')
        if sc.get('title') and any(ord(ch) > 127 for ch in sc['title']):
            ctx.probe('multibyte-text-in-descriptor')
        desc_s = 'target=%s opts=%s sizes=%r empty=%r' % (target, json.dumps(opts), [len(t['rows']) for t in sc['tables']], sc.get('empty'))
        results = []
        pending = []
        for n, env in enumerate([None, sc.get('env2')]):
            d = os.path.join(ctx.scratch, 'd%d' % n)
            os.makedirs(d)
            os.chdir(d)
            out = os.path.join(d, 'out' if target == 'path' else 'out.zip')
            r = ctx.subrun(_dump, {'tables': sc['tables'], 'empty': sc.get('empty'), 'opts': opts, 'target': target, 'out': out, 'env': env, 'corrupt': sc.get('corrupt'), 'title': sc.get('title'),
                                   'clock': (sc.get('clock') or [None, None])[n], 'prior': sc.get('prior'),
                                   'same_flow_twice': sc.get('same_flow_twice'), 'after': sc.get('after'), 'extra_key': sc.get('extra_key')})
            if r['status'] != 'ok':
                if n == 0:
                    ctx.discard('dump raises: %s' % json.dumps(r.get('exc'))[:300])
                ctx.violation('repeatable-hash', 'second-dump-raised', 'the same dump raised under a different ambient environment %r: %s; %s' % (env, json.dumps(r.get('exc'))[:300], desc_s))
            stats = r['value']['stats']
            desc, rd, ex, desc_size = read_package(target, out)
            res_hashes = []
            tot_rows, tot_bytes = 0, 0
            for res in desc['resources']:
                path = res['path'] if not isinstance(res['path'], list) else res['path'][0]
                if not ex(path):
                    ctx.violation('path-points-at-file', 'missing', 'recorded path %r does not exist in the dumped package; %s' % (path, desc_s))
                data = rd(path)
                rb = get_attr(res, counters['resource-bytes'])
                rh = get_attr(res, counters['resource-hash'])
                rc = get_attr(res, counters['resource-rowcount'])
                nrows = count_rows(fmt, data)
                tot_rows += nrows
                tot_bytes += len(data)
                if counters['resource-bytes'] and rb != len(data):
                    ctx.violation('bytes', 'resource', 'resource %r: recorded %s=%r, the file has %d bytes; %s' % (res['name'], counters['resource-bytes'], rb, len(data), desc_s))
                if counters['resource-hash'] and rh != hashlib.md5(data).hexdigest():
                    ctx.violation('hash', 'resource', 'resource %r: recorded %s=%r, md5 of the file is %s; %s' % (res['name'], counters['resource-hash'], rh, hashlib.md5(data).hexdigest(), desc_s))
                if counters['resource-rowcount'] and rc != nrows:
                    ctx.violation('rowcount', 'resource', 'resource %r: recorded %s=%r, the file has %d data rows; %s' % (res['name'], counters['resource-rowcount'], rc, nrows, desc_s),
                                  recorded=rc)
                res_hashes.append(rh)
            pr = get_attr(desc, counters['datapackage-rowcount'])
            pb = get_attr(desc, counters['datapackage-bytes'])
            ph = get_attr(desc, counters['datapackage-hash'])
            if counters['datapackage-rowcount'] and pr != tot_rows:
                ctx.violation('package-totals', 'rowcount', 'package %s=%r, the resources hold %d data rows in total; %s' % (counters['datapackage-rowcount'], pr, tot_rows, desc_s))
            if counters['datapackage-bytes'] and pb != tot_bytes:
                ctx.violation('package-totals', 'bytes', 'package %s=%r, the data files hold %d bytes in total; %s' % (counters['datapackage-bytes'], pb, tot_bytes, desc_s))
            # stats returned by process() agree with the written descriptor
            for key, cname in (('count_of_rows', 'datapackage-rowcount'), ('bytes', 'datapackage-bytes'), ('hash', 'datapackage-hash')):
                if counters[cname] is None:
                    continue
                want = get_attr(desc, counters[cname])
                if stats.get(key) != want and key == 'bytes' and isinstance(want, int) and isinstance(stats.get(key), int) and stats[key] - want == desc_size:
                    # lowest priority (known finding C09-stats-bytes-include-descriptor): raised only if nothing else is wrong
                    pending.append(('stats-vs-descriptor', 'bytes+descriptor', 'process() returned stats[\'bytes\']=%r = recorded %s=%r + the %d bytes of datapackage.json itself; %s' % (
                        stats[key], counters[cname], want, desc_size, desc_s), dict(stat_key=key, stat=stats[key], recorded=want, desc_size=desc_size)))
                elif stats.get(key) != want:
                    ctx.violation('stats-vs-descriptor', key, 'process() returned stats[%r]=%r, the written descriptor records %s=%r (descriptor file itself: %d bytes); %s' % (
                        key, stats.get(key), counters[cname], want, desc_size, desc_s), stat_key=key, stat=stats.get(key), recorded=want, desc_size=desc_size)
            results.append((res_hashes, ph))
        if sc.get('redump') and not sc.get('corrupt') and not opts.get('add_filehash_to_path'):
            ctx.probe('re-dump-of-a-loaded-package')
            d = os.path.join(ctx.scratch, 'd2')
            os.makedirs(d)
            os.chdir(d)
            src = os.path.join(ctx.scratch, 'd0', 'out' if target == 'path' else 'out.zip')
            out = os.path.join(d, 'out' if target == 'path' else 'out.zip')
            r = ctx.subrun(_dump, {'tables': sc['tables'], 'opts': opts, 'target': target, 'out': out, 'redump_from': src})
            if r['status'] == 'ok':
                desc, rd, ex, desc_size = read_package(target, out)
                for res in desc['resources']:
                    path = res['path'] if not isinstance(res['path'], list) else res['path'][0]
                    if not ex(path):
                        ctx.violation('path-points-at-file', 'missing', 're-dump of a loaded package: recorded path %r does not exist; %s' % (path, desc_s), redump=True)
                    data = rd(path)
                    rb, rc = get_attr(res, counters['resource-bytes']), get_attr(res, counters['resource-rowcount'])
                    rh = get_attr(res, counters['resource-hash'])
                    if counters['resource-bytes'] and rb != len(data):
                        ctx.violation('bytes', 'resource-redump', 're-dump of a loaded package: resource %r records %s=%r, the file has %d bytes; %s' % (res['name'], counters['resource-bytes'], rb, len(data), desc_s), redump=True)
                    if counters['resource-rowcount'] and rc != count_rows(fmt, data):
                        ctx.violation('rowcount', 'resource-redump', 're-dump of a loaded package: resource %r records %s=%r, the file has %d data rows; %s' % (res['name'], counters['resource-rowcount'], rc, count_rows(fmt, data), desc_s), redump=True)
                    if counters['resource-hash'] and rh != hashlib.md5(data).hexdigest():
                        ctx.violation('hash', 'resource-redump', 're-dump of a loaded package: resource %r records a hash that is not the md5 of the file; %s' % (res['name'], desc_s), redump=True)
        clock = sc.get('clock') or [None, None]
        if clock[0] != clock[1]:
            ctx.probe('second-dump-at-a-later-instant')
        if results[0] != results[1] and fmt == 'excel' and (clock[0] != clock[1] or (sc.get('env2') or {}).get('tz')):
            # lowest priority (known finding C09-excel-hash-depends-on-clock)
            pending.insert(0, ('repeatable-hash', 'excel-clock', 'dumping the same data twice in excel format gave different hashes when the wall clock or the time zone differ: %r vs %r (clock %r, second dump under %r); %s' % (
                results[0], results[1], clock, sc.get('env2'), desc_s), dict(clock=clock, tz2=(sc.get('env2') or {}).get('tz'))))
        elif results[0] != results[1]:
            ctx.violation('repeatable-hash', 'differ', 'dumping the same data twice gave different hashes: %r vs %r (second dump under %r); %s' % (results[0], results[1], sc.get('env2'), desc_s))
        if any(t['rows'] for t in sc['tables']):
            ctx.nt(fmt, target, json.dumps(opts.get('counters'), sort_keys=True), opts.get('add_filehash_to_path'), opts.get('pretty_descriptor'), [len(t['rows']) for t in sc['tables']], sc.get('empty'))
        ctx.sample = {'sizes': [len(t['rows']) for t in sc['tables']], 'empty': sc.get('empty'), 'opts': opts, 'target': target, 'env2': sc.get('env2')}
        if pending and not os.environ.get('DFSIM_C09_SKIP_KNOWN'):
            c, k, m, d = pending[0]
            ctx.violation(c, k, m, **d)


PROP = C09()
