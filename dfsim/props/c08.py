"""C08 - an interrupted checkpoint is never used.

History machine over one scratch directory (the durable state):
  RUN                      fault-free run (fresh process)
  CRASH(point)             process dies at seam op k (before / after / torn)
  FAIL(fault)              io-error at seam op k | step raises at (step,res,row|end) | source raises
  DELETE                   remove the checkpoint directory
Oracles
  incomplete-checkpoint-committed   after any op: a checkpoint file under its final name parses as
                                    descriptor + exactly the reference's resources and rows
  recovery:rows / recovery:descriptor   every fault-free RUN returns the uninterrupted reference result
  recovery:not-recomputed / recovery:recomputed-needlessly   sources and steps execute exactly
                                    when no complete checkpoint downstream of them is present
  recovery-raised                   a fault-free RUN raised
"""
import json
import os
import shutil

from ..core.prop import Prop
from ..gen import tables as T
from ..seams.fs import FsSeam
from . import cpcommon

WHENS = ['before', 'after', 'torn']


def _setup(fault_plan, bufsize):
    def setup(sub):
        seam = FsSeam(sub, os.getcwd(), plan=fault_plan, bufsize=bufsize)
        seam.install()
        sub.seam = seam
    return setup


def _run(payload, sub):
    out = cpcommon.build_and_run(payload['spec'], sub, faults=payload.get('faults'))
    out['seam_ops'] = sub.seam.n
    out['ops'] = [list(o) for o in sub.seam.ops]
    return out


def _fail_then_run(payload, sub):
    """One long-lived process: a run fails with an exception that the caller keeps (so the failed run's generators and
    its open .active file are NOT finalised yet), the healthy flow is run again at once, and only then is the failed run
    garbage collected.  The schedule dimension here is *when* the abandoned generators are finalised."""
    import gc
    kept = None
    try:
        cpcommon.build_and_run(payload['spec'], sub, faults=payload.get('faults'))
        failed = False
    except Exception as e:  # noqa
        kept = e            # keeps the traceback -> frames -> suspended generators -> open file object alive
        failed = True
    sub.log('first-run-failed', failed)
    second = None
    second_exc = None
    try:
        second = cpcommon.build_and_run(payload['spec'], sub)
    except Exception as e:  # noqa
        from ..core.ctx import describe_exc
        second_exc = describe_exc(e)
    kept = None
    gc.collect()
    gc.collect()
    return {'failed': failed, 'second': second, 'second_exc': second_exc}


class C08(Prop):
    ID = 'C08'
    TITLE = 'An interrupted checkpoint is never used'
    LEVEL = 'fault_enumeration'
    TECHNIQUE = 'deterministic simulation: fork-per-run crash/IO-fault injection at the file-system seam + history oracle'
    SIMTIME_UNIT = 'seam ops (raw write/close/rename/mkdir system calls issued under the scratch root) and source rows pulled'
    RULE = ('one evaluation = one seeded history (workload of 1-3 resources x 0-12 rows, 1-2 chained checkpoints, buffer-size knob) '
            'of RUN / CRASH(seam op k, before|after|torn) / FAIL(io-error at op k | step raise | source raise) / DELETE ops, each op in a '
            'freshly forked process over the surviving directory; thorough tier additionally sweeps EVERY seam op x 3 crash modes and every '
            'io-error site of a workload. Non-trivial = at least one injected fault actually fired while a checkpoint was being written; '
            'distinct = distinct (fault site kind, relative position in file, post-fault directory state, workload shape) tuples.')
    ASSUMPTIONS = ['process death is modelled as os._exit at a system-call boundary; power loss (un-fsynced data vanishing) is not modelled',
                   'sqlite / tabulator file access is below the seam (not used by checkpoint)',
                   'values are JSON-native (int/str/bool/null): type fidelity of the checkpoint encoding is C07']
    REAL_VS_STUB = {'real': ['dataflows Flow/checkpoint/stream/unstream', 'CPython TextIOWrapper/BufferedWriter buffering', 'kernel file system (tmpfs)'],
                    'stub': ['io.FileIO subclass counting/aborting raw writes', 'os.rename/unlink/makedirs wrappers', 'process death = os._exit(77) in a forked child']}
    PROBES = ['small-inference-sample', 'row-function-raises-StopIteration', 'crash-between-close-and-rename', 'crash-inside-last-resource', 'torn-write-landed', 'final-file-present-after-fault',
              'two-checkpoints-first-complete-second-not', 'fault-not-reached', 'io-error-at-rename', 'io-error-at-close',
              'recovery-from-complete-checkpoint', 'recovery-from-scratch', 'empty-resource', 'sweep-complete', 'healthy-run-before-failed-run-was-finalised']
    TIERS = {'quick': dict(runs=700, wall=100, run_wall=300),
             'thorough': dict(runs=1500, wall=1500, run_wall=600)}
    SHRINK_FROZEN = ('fields',)

    # ------------------------------------------------------------------ generate
    def generate(self, rng, tier):
        ntab = rng.choice([1, 1, 2, 2, 3])
        tabs = []
        idc = 0
        for i in range(ntab):
            n = rng.choice([0, 1, 2, 3, 5, 8, 12])
            types = [rng.choice(['string', 'integer', 'boolean']) for _ in range(rng.randrange(1, 4))]
            t = T.gen_table(rng, 'res_%d' % (i + 1), n, types, id_start=idc, words=T.WORDS if rng.random() < 0.3 else T.SIMPLE_WORDS)
            idc += n
            tabs.append(t)
        shape = rng.choice(['one', 'one', 'one-tail', 'mid-one', 'two', 'two-tail', 'rmid-one', 'two-rmid'])
        links = {'one': ['cp:a'], 'one-tail': ['cp:a', 'tail'], 'mid-one': ['mid', 'cp:a'],
                 'two': ['cp:a', 'mid', 'cp:b'], 'two-tail': ['cp:a', 'mid', 'cp:b', 'tail'],
                 # a plain row function upstream of a checkpoint (it may fail with StopIteration)
                 'rmid-one': ['rmid', 'cp:a'], 'two-rmid': ['cp:a', 'rmid', 'cp:b']}[shape]
        spec = {'tables': tabs, 'links': links}
        if rng.random() < 0.4:
            spec['sample_size'] = rng.choice([1, 2, 5])
        sc = {'spec': spec, 'bufsize': rng.choice([None, None, 16, 64, 256])}
        sweep_p = 0.02 if tier == 'quick' else 0.25
        if rng.random() < sweep_p:
            if tier == 'quick':     # keep quick sweeps small: <= 2 resources of <= 3 rows
                spec['tables'] = [dict(t, rows=t['rows'][:3]) for t in tabs[:2]]
            sc['ops'] = [{'op': 'sweep'}]
            return sc
        ops = []
        nops = rng.choice([2, 2, 3, 4, 5])
        for _ in range(nops):
            r = rng.random()
            if r < 0.70 and rng.random() < 0.5:
                ops.append({'op': 'delete'})      # faults are only interesting while a checkpoint is being written
            if r < 0.45:
                ops.append({'op': 'crash', 'kf': round(rng.random(), 4), 'when': rng.choice(WHENS), 'frac': round(rng.random(), 3)})
            elif r < 0.60:
                ops.append({'op': 'fail', 'fault': self._gen_fault(rng, spec)})
            elif r < 0.70:
                f = self._gen_fault(rng, spec)
                if f['kind'] != 'ioerror':
                    ops.append({'op': 'fail_then_run', 'fault': f})
            elif r < 0.90:
                ops.append({'op': 'run'})
            else:
                ops.append({'op': 'delete'})
        # bias: end-of-file crash points (close / rename) are the interesting ones
        if rng.random() < 0.4:
            ops.insert(0, {'op': 'crash', 'kf': 1.0, 'back': rng.choice([0, 1, 2, 3, 4]), 'when': rng.choice(WHENS), 'frac': 0.5})
        ops.append({'op': 'run'})
        sc['ops'] = ops
        return sc

    def _gen_fault(self, rng, spec):
        r = rng.random()
        tabs = spec['tables']
        steps = [l for l in spec['links'] if not l.startswith('cp:')]
        if r < 0.4:
            return {'kind': 'ioerror', 'kf': round(rng.random(), 4), 'errno': rng.choice(['ENOSPC', 'EIO', 'EACCES']),
                    'frac': rng.choice([0.0, 0.0, 0.5])}
        if r < 0.75 and steps:
            ti = rng.randrange(len(tabs))
            n = len(tabs[ti]['rows'])
            row = rng.choice(['end', 0, n - 1, n // 2]) if n else 'end'
            at = rng.choice(steps)
            f = {'kind': 'step', 'at': at, 'res': ti, 'row': row}
            if at.startswith('r') and rng.random() < 0.6:
                f['exc'] = 'StopIteration'
            return f
        ti = rng.randrange(len(tabs))
        n = len(tabs[ti]['rows'])
        return {'kind': 'source', 'res': ti, 'row': rng.choice([0, n, n // 2, max(0, n - 1)])}

    # ------------------------------------------------------------------ execute
    def execute(self, sc, ctx):
        if (sc.get('spec') or {}).get('sample_size'):
            ctx.probe('small-inference-sample')
        spec = sc['spec']
        bufsize = sc.get('bufsize')
        if not spec['tables'] or not cpcommon.cp_names(spec):
            ctx.discard('no tables / no checkpoint')
        work = os.path.join(ctx.scratch, 'work')
        refd = os.path.join(ctx.scratch, 'ref')
        os.makedirs(work)
        os.makedirs(refd)
        names = cpcommon.cp_names(spec)
        if any(len(t['rows']) == 0 for t in spec['tables']):
            ctx.probe('empty-resource')

        # reference: the uninterrupted run in a clean directory
        os.chdir(refd)
        ref = ctx.subrun(_run, {'spec': spec}, setup=_setup(None, bufsize))
        if ref['status'] != 'ok':
            ctx.discard('reference run raised: %s' % json.dumps(ref.get('exc'))[:300])
        ref = ref['value']
        K = ref['seam_ops']
        ref_files = {}
        for nm in names:
            p = cpcommon.cp_file(refd, nm)
            if not os.path.exists(p):
                ctx.violation('recovery:not-committed', 'reference', 'uninterrupted run left no checkpoint %r' % nm)
            ref_files[nm] = cpcommon.parse_stream_file(p)
            if not ref_files[nm][2]:
                ctx.violation('incomplete-checkpoint-committed', 'reference', 'uninterrupted run wrote an incomplete checkpoint %r' % nm)
        ref_ops = ref['ops']
        total = [len(t['rows']) for t in spec['tables']]

        def present():
            return {nm: os.path.exists(cpcommon.cp_file(work, nm)) for nm in names}

        def check_dir(after, point=None):
            for nm in names:
                p = cpcommon.cp_file(work, nm)
                if os.path.exists(p):
                    got = cpcommon.parse_stream_file(p)
                    want = ref_files[nm]
                    if not got[2] or got[0] != want[0] or got[1] != want[1]:
                        nrows = [len(x) for x in got[1]]
                        ctx.violation('incomplete-checkpoint-committed', 'partial',
                                      'after %s: checkpoint %r exists under its final name but is not the complete stream '
                                      '(parsed complete=%s, rows per resource %r, expected %r)' % (
                                          after, nm, got[2], nrows, [len(x) for x in want[1]]), point=point, after=after)

        def expect_counters(before):
            # model: walking the links from the end, the first checkpoint that is present cuts everything upstream of it
            links = spec['links']
            cut = -1
            for i in range(len(links) - 1, -1, -1):
                if links[i].startswith('cp:') and before[links[i][3:]]:
                    cut = i
                    break
            exp_src = [0] * len(total) if cut >= 0 else list(total)
            exp_steps = {}
            for i, ln in enumerate(links):
                if not ln.startswith('cp:'):
                    exp_steps[ln] = sum(total) if i > cut else 0
            return exp_src, exp_steps

        def do_run(label):
            before = present()
            os.chdir(work)
            r = ctx.subrun(_run, {'spec': spec}, setup=_setup(None, bufsize))
            if r['status'] != 'ok':
                ctx.violation('recovery-raised', r['exc']['type'], '%s: fault-free run raised %s' % (label, json.dumps(r['exc'])[:600]),
                              before=before, point=cur['point'])
            v = r['value']
            if v['rows'] != ref['rows']:
                ctx.violation('recovery:rows', 'differ', '%s: rows differ from the uninterrupted run: got %s want %s (checkpoints present before: %r)' % (
                    label, json.dumps(v['rows'])[:500], json.dumps(ref['rows'])[:500], before), before=before, point=cur['point'])
            if v['dp'] != ref['dp']:
                ctx.violation('recovery:descriptor', 'differ', '%s: descriptor differs from the uninterrupted run' % label, before=before, point=cur['point'])
            exp_src, exp_steps = expect_counters(before)
            if v['src'] != exp_src or v['steps'] != exp_steps:
                if sum(v['src']) < sum(exp_src) or any(v['steps'][k] < exp_steps[k] for k in exp_steps):
                    ctx.violation('recovery:not-recomputed', 'counters', '%s: with checkpoints present=%r expected source pulls %r / step rows %r, observed %r / %r' % (
                        label, before, exp_src, exp_steps, v['src'], v['steps']), before=before, point=cur['point'])
                ctx.violation('recovery:recomputed-needlessly', 'counters', '%s: with checkpoints present=%r expected source pulls %r / step rows %r, observed %r / %r' % (
                    label, before, exp_src, exp_steps, v['src'], v['steps']), before=before, point=cur['point'])
            ctx.probe('recovery-from-complete-checkpoint' if any(before.values()) else 'recovery-from-scratch')
            check_dir(label)
            for nm in names:
                if not os.path.exists(cpcommon.cp_file(work, nm)):
                    ctx.violation('recovery:not-committed', 'missing', '%s: run completed but checkpoint %r is absent' % (label, nm))

        def classify_point(k, when):
            """probes: where did the crash land relative to the reference op list"""
            if 1 <= k <= len(ref_ops):
                op = ref_ops[k - 1]
                kind, path = op[1], op[2]
                nxt = ref_ops[k][1] if k < len(ref_ops) else None
                if (kind == 'close' and when == 'after' and nxt == 'rename') or (kind == 'rename' and when == 'before'):
                    ctx.probe('crash-between-close-and-rename')
                # inside last resource: a write to an .active file that is among the last sum(total[-1]) writes
                if kind == 'write' and total and total[-1] > 0:
                    later_writes = sum(1 for o in ref_ops[k:] if o[1] == 'write' and o[2] == path)
                    if later_writes <= total[-1]:
                        ctx.probe('crash-inside-last-resource')
                return kind
            return 'beyond'

        def do_crash(k, when, frac, label):
            before = present()
            os.chdir(work)
            plan = [{'k': k, 'kind': 'crash', 'when': when, 'frac': frac}]
            r = ctx.subrun(_run, {'spec': spec}, setup=_setup(plan, bufsize))
            point = {'k': k, 'when': when, 'frac': frac}
            if r['status'] == 'crash':
                kind = classify_point(k, when) if not any(before.values()) else 'ctx'
                if when == 'torn' and ctx.fired.get('torn-write'):
                    ctx.probe('torn-write-landed')
                after = present()
                if any(after.values()):
                    ctx.probe('final-file-present-after-fault')
                if len(names) == 2 and after[names[0]] and not after[names[1]]:
                    ctx.probe('two-checkpoints-first-complete-second-not')
                ctx.mark_nontrivial()
                ctx.nt(('crash', kind, when, sorted(after.items()), total, spec['links']))
                check_dir('%s crash at seam op %d (%s)' % (label, k, when), point)
            else:
                ctx.probe('fault-not-reached')
                if r['status'] == 'exc':
                    ctx.violation('recovery-raised', r['exc']['type'], '%s: run with an unreached crash point raised %s' % (label, json.dumps(r['exc'])[:400]))
                check_dir(label + ' (crash point not reached)', point)

        def do_fail(fault, label):
            before = present()
            os.chdir(work)
            plan = None
            faults = {}
            if fault['kind'] == 'ioerror':
                k = fault.get('k') or max(1, min(K, 1 + int(fault['kf'] * K)))
                plan = [{'k': k, 'kind': 'ioerror', 'errno': fault.get('errno', 'EIO'), 'frac': fault.get('frac', 0.0)}]
            elif fault['kind'] == 'step':
                faults['step'] = fault
                if fault.get('exc') == 'StopIteration':
                    ctx.probe('row-function-raises-StopIteration')
            else:
                faults['source'] = fault
            r = ctx.subrun(_run, {'spec': spec, 'faults': faults}, setup=_setup(plan, bufsize))
            fired_now = r['status'] == 'exc'
            if fired_now:
                ctx.mark_nontrivial()
                if fault['kind'] == 'ioerror' and 1 <= plan[0]['k'] <= len(ref_ops) and not any(before.values()):
                    kind = ref_ops[plan[0]['k'] - 1][1]
                    if kind == 'rename':
                        ctx.probe('io-error-at-rename')
                    if kind == 'close':
                        ctx.probe('io-error-at-close')
                else:
                    kind = fault['kind']
                after = present()
                if any(after.values()):
                    ctx.probe('final-file-present-after-fault')
                ctx.nt(('fail', fault['kind'], kind, str(fault.get('row')), sorted(after.items()), total, spec['links']))
            else:
                ctx.probe('fault-not-reached')
            check_dir('%s failed run (%s)' % (label, json.dumps(fault)), fault)

        cur = {'point': None}
        for oi, op in enumerate(sc['ops']):
            label = 'op#%d %s' % (oi, op['op'])
            ctx.log('op', oi, op['op'])
            if op['op'] == 'run':
                do_run(label)
            elif op['op'] == 'delete':
                shutil.rmtree(os.path.join(work, '.checkpoints'), ignore_errors=True)
            elif op['op'] == 'crash':
                if 'k' in op:
                    k = op['k']
                elif 'back' in op:
                    k = max(1, K - op['back'])
                else:
                    k = max(1, min(K, 1 + int(op['kf'] * K)))
                do_crash(k, op['when'], op.get('frac', 0.5), label)
            elif op['op'] == 'fail':
                do_fail(op['fault'], label)
            elif op['op'] == 'fail_then_run':
                fault = op['fault']
                before = present()
                os.chdir(work)
                faults = {'step': fault} if fault['kind'] == 'step' else {'source': fault}
                r = ctx.subrun(_fail_then_run, {'spec': spec, 'faults': faults}, setup=_setup(None, bufsize))
                if r['status'] != 'ok':
                    from ..core.ctx import HarnessError
                    raise HarnessError('fail_then_run sub-run: %s' % json.dumps(r)[:500])
                v = r['value']
                if v['failed']:
                    ctx.probe('healthy-run-before-failed-run-was-finalised')
                    ctx.nt('fail_then_run', fault['kind'], str(fault.get('row')), sorted(before.items()), total, spec['links'])
                    if v['second_exc'] is not None:
                        ctx.violation('recovery-raised', v['second_exc']['type'], '%s: the healthy run right after a failed one (same process, failed run not yet finalised) raised %s' % (
                            label, json.dumps(v['second_exc'])[:500]), point=fault)
                    if v['second']['rows'] != ref['rows']:
                        ctx.violation('recovery:rows', 'differ', '%s: the healthy run right after a failed one (same process) returned different rows' % label, point=fault)
                check_dir('%s (failed run finalised only after the next run had completed)' % label, fault)
            elif op['op'] == 'sweep':
                # every seam op of the from-scratch run x every crash mode, and an io-error at every op; each followed by a recovery run
                for k in range(1, K + 1):
                    for when in WHENS:
                        if when == 'torn' and not (ref_ops[k - 1][1] == 'write' and ref_ops[k - 1][3] > 1):
                            continue
                        shutil.rmtree(os.path.join(work, '.checkpoints'), ignore_errors=True)
                        cur['point'] = {'k': k, 'when': when, 'frac': 0.5}
                        do_crash(k, when, 0.5, 'sweep')
                        do_run('sweep recovery after crash k=%d %s' % (k, when))
                    shutil.rmtree(os.path.join(work, '.checkpoints'), ignore_errors=True)
                    cur['point'] = {'kind': 'ioerror', 'k': k, 'errno': 'ENOSPC', 'frac': 0.0}
                    do_fail(cur['point'], 'sweep')
                    do_run('sweep recovery after io-error k=%d' % k)
                ctx.probe('sweep-complete')
                ctx.count('sweep_points', K)
            else:
                ctx.discard('unknown op')
        ctx.sample = {'links': spec['links'], 'rows_per_resource': total, 'bufsize': bufsize, 'ops': sc['ops'], 'seam_ops_of_reference_run': K}

    # ------------------------------------------------------------------ shrinking
    def focus(self, sc, rec):
        d = rec.get('detail') or {}
        pt = d.get('point')
        if sc['ops'] and sc['ops'][0]['op'] == 'sweep' and isinstance(pt, dict):
            new = dict(sc)
            if 'when' in pt:
                new['ops'] = [{'op': 'crash', 'k': pt['k'], 'when': pt['when'], 'frac': pt.get('frac', 0.5)}, {'op': 'run'}]
            else:
                new['ops'] = [{'op': 'fail', 'fault': pt}, {'op': 'run'}]
            return new
        return None


PROP = C08()
