"""C07 - resuming from a checkpoint reproduces the first run.

History machine over the checkpoint directory (durable state): RUN / DELETE(c_i) / DELETE_ALL, in two process
configurations reported separately:
  fresh        every RUN builds the flow anew in a fresh child, optionally under a different TZ
  same-object  the whole history runs in one child and re-runs the *same Flow object* (f.process(); f.process())
Reference model: the set of existing checkpoints decides which counting steps must / must not execute; expected
result = the same flow with the checkpoints removed, run once.
"""
import datetime
import decimal
import json
import os
import shutil

from ..core.prop import Prop
from ..gen import pipelines as PL
from ..gen import steps as ST
from ..gen import tables as T
from . import cpcommon

# built-in steps that may sit upstream of the checkpoints ('g' links): everything that is not an observer, a source or a user callable
G_KINDS = ['add_computed_field', 'add_field', 'concatenate', 'dedup', 'delete_fields', 'delete_resource', 'duplicate', 'filter_rows', 'find_replace', 'join',
           'join_with_self', 'rename_fields', 'select_fields', 'set_primary_key', 'set_type', 'sort_rows', 'unpivot', 'update_package', 'update_resource',
           'update_schema', 'validate']


def _expand_g(payload, sub):
    """draw 1-3 built-in steps against the real descriptor of the sources (throw-away process)"""
    import random
    rng = random.Random(payload['gseed'])
    sc = PL.gen_pipeline(rng, payload['tables'], payload['n'], exclude=[k for k in ST.GENS if k not in G_KINDS])
    return sc['steps']

TZS = ['UTC', 'America/New_York', 'Asia/Kolkata', 'Pacific/Chatham']
OFFSETS = [0, 3600, 19800, 45900, -18000, -12600, -43200, 50400, -60, 60, -3600]
VTYPES = ['string', 'integer', 'number', 'boolean', 'date', 'time', 'datetime', 'datetime_tz', 'duration', 'array', 'object', 'unicode']


def gen_cell(rng, t):
    if rng.random() < 0.1:
        return None
    if t == 'datetime_tz':
        off = rng.choice(OFFSETS)
        # zone abbreviations are not unique: 'CST' is -06:00 in Chicago and +08:00 in Shanghai, 'IST' +05:30 / +02:00 / +01:00
        tz = datetime.timezone(datetime.timedelta(seconds=off), rng.choice(['CST', 'IST', 'BST'])) if rng.random() < 0.4 else datetime.timezone(datetime.timedelta(seconds=off))
        return datetime.datetime(rng.choice([1970, 1999, 2024, 476, 999, 1]), rng.randrange(1, 13), rng.randrange(1, 29), rng.randrange(24), rng.randrange(60), rng.randrange(60),
                                 tzinfo=tz)
    if t == 'datetime' and rng.random() < 0.3:
        return datetime.datetime(rng.choice([1, 476, 999, 1000]), rng.randrange(1, 13), rng.randrange(1, 29), rng.randrange(24), rng.randrange(60), rng.randrange(60))
    if t == 'date' and rng.random() < 0.3:
        return datetime.date(rng.choice([1, 476, 999, 1000]), rng.randrange(1, 13), rng.randrange(1, 29))
    if t == 'duration':
        return datetime.timedelta(days=rng.choice([0, 1, 40]), seconds=rng.randrange(0, 86400))
    if t == 'unicode':
        return rng.choice(['é', 'זה', '\U0001F600 x', 'line\nbreak', 'q"q', 'tab\tx', ' sep', 'a\\b', '', ' '])
    if t == 'array':
        return [rng.choice([1, 'x', None, 2.5, True, [1, [2]], {'k': 'v'}]) for _ in range(rng.randrange(0, 4))]
    if t == 'object':
        return {rng.choice(['a', 'b', 'é']): rng.choice([1, 'x', None, [1, 2], {'n': {'m': 1}}]) for _ in range(rng.randrange(0, 3))}
    if t == 'number':
        return rng.choice([decimal.Decimal('0'), decimal.Decimal('1.5'), decimal.Decimal('-2.25'), decimal.Decimal('3.14159265358979323846264338327950288'),
                           decimal.Decimal('1E+30'), decimal.Decimal('-0.000000001'), decimal.Decimal(rng.randrange(-10**9, 10**9)) / 1000])
    return T.gen_value(rng, t, null_p=0.0)


def gen_typed_table(rng, name, n, id_start):
    k = rng.randrange(1, 5)
    types = [rng.choice(VTYPES) for _ in range(k)]
    fields = [{'name': '_id', 'type': 'integer'}] + [{'name': '%s%d' % (t[:2], i), 'type': t} for i, t in enumerate(types)]
    rows = []
    for r in range(n):
        rows.append([id_start + r] + [T.enc(gen_cell(rng, t)) for t in types])
    if n:
        for ci, t in enumerate(types):
            if rows[0][ci + 1] is None:
                v = None
                while v is None:
                    v = gen_cell(rng, t)
                rows[0][ci + 1] = T.enc(v)
    return {'name': name, 'fields': fields, 'rows': rows}


def _load_source(spec, iterators):
    """the sources as one load((descriptor, iterators)) step: descriptor = what the plain iterables infer"""
    from dataflows import Flow, load
    desc = Flow(*[T.rows_of(t) for t in spec['tables']]).datastream().dp.descriptor
    desc = json.loads(json.dumps(desc))
    return load((desc, iterators), strip=False)


def _package_source(spec):
    """the sources as a data package on disk (written once per directory from the plain iterables), read back with load(path)"""
    from dataflows import Flow, load, dump_to_path
    d = os.path.abspath('srcpkg')
    if not os.path.exists(os.path.join(d, 'datapackage.json')):
        Flow(*[T.rows_of(t) for t in spec['tables']], dump_to_path(d)).process()
    return load(os.path.join(d, 'datapackage.json'))


def _history(payload, sub):
    """Runs in a sub-run child: a list of ops against one Flow object (same-object) or a single RUN (fresh)."""
    import time as _time
    tz = payload.get('tz')
    if tz:
        os.environ['TZ'] = tz
        _time.tzset()
    from dataflows import Flow, checkpoint, add_field
    from ..core.ctx import jsonable
    spec = payload['spec']
    counters = {'src': [0] * len(spec['tables']), 'steps': {}}

    class Src:
        def __init__(self, ti, rows):
            self.ti, self.rows = ti, rows

        def __iter__(self):
            for row in self.rows:
                counters['src'][self.ti] += 1
                yield dict(row)

    armed = {'at': None, 'seen': 0}

    class Boom(Exception):
        pass

    def counting(name):
        counters['steps'][name] = 0

        def step(rows):
            for row in rows:
                if armed['at'] is not None:
                    if armed['seen'] == armed['at']:
                        armed['at'] = None
                        sub.fault('step-raise')
                        raise Boom('history op failrun: step %s fails' % name)
                    armed['seen'] += 1
                counters['steps'][name] += 1
                if name.startswith('m'):
                    # a non-idempotent in-place edit: running it twice, or letting it leak into a checkpoint
                    # written upstream of it, shows in the result
                    row['_id'] = row['_id'] + 1000
                    row[name] = (row.get(name) or '') + '!'
                yield row
        return step

    rewindable = []

    class Restartable:
        # a lawful iterator (exhausted stays exhausted) that is rewound before every RUN op, the way one would seek(0) a file:
        # what load() pulls from when the same Flow object runs again
        def __init__(self, ti, rows):
            self.ti, self.rows = ti, rows
            self.g = iter(Src(ti, rows))
            rewindable.append(self)

        def rewind(self):
            self.g = iter(Src(self.ti, self.rows))

        def __iter__(self):
            return self

        def __next__(self):
            return next(self.g)

    def make():
        if spec.get('src') == 'load':
            links = [_load_source(spec, [Restartable(ti, T.rows_of(t)) for ti, t in enumerate(spec['tables'])])]
        elif spec.get('src') == 'package':
            links = [_package_source(spec)]
        else:
            links = [Src(ti, T.rows_of(t)) for ti, t in enumerate(spec['tables'])]
        for sp in spec.get('gsteps') or []:
            links.extend(ST.build(sp, {'calls': {}}))
        for ln in spec['links']:
            if ln.startswith('cp:'):
                links.append(checkpoint(ln[3:]))
            elif ln.startswith('v'):
                from dataflows import validate
                links.append(validate())          # a built-in step with a resource selector of its own (state kept between runs?)
            elif ln.startswith('x'):
                from dataflows import set_type
                links.append(set_type('_id', type='integer', transform=_shift))      # a non-idempotent transform: applied twice it shows
            else:
                if ln.startswith('m'):
                    links.append(add_field(ln, 'string'))
                links.append(counting(ln))
        return Flow(*links)

    flow = make()
    outs = []
    for op in payload['ops']:
        if op['op'] == 'run':
            for it in rewindable:
                it.rewind()
            counters['src'] = [0] * len(spec['tables'])
            for k in counters['steps']:
                counters['steps'][k] = 0
            before = {nm: os.path.exists(os.path.join('.checkpoints', nm, 'stream.ndjson')) for nm in cpcommon.cp_names(spec)}
            try:
                rows, dp, _ = flow.results()
                outs.append({'rows': jsonable(rows), 'dp': jsonable(dp.descriptor), 'src': list(counters['src']), 'steps': dict(counters['steps']), 'before': before})
            except Exception as e:  # noqa
                from ..core.ctx import describe_exc
                outs.append({'exc': describe_exc(e), 'before': before})
                break
            import gc
            gc.collect()
        elif op['op'] == 'failrun':
            # a run of the same flow that dies part-way (a counting step raises at its k-th row); what it leaves behind is
            # C08's business, what the *next* runs return is judged here
            armed['at'], armed['seen'] = op['at'], 0
            try:
                flow.results()
                outs.append({'failed': False})
            except Exception:  # noqa
                outs.append({'failed': True})
            armed['at'] = None
            import gc
            gc.collect()
        elif op['op'] == 'delete':
            shutil.rmtree(os.path.join('.checkpoints', op['name']), ignore_errors=True)
            outs.append(None)
        elif op['op'] == 'delete_all':
            shutil.rmtree('.checkpoints', ignore_errors=True)
            outs.append(None)
    return outs


def _shift(v, **kw):
    return v + 7 if isinstance(v, int) else v


def _mut(name):
    def step(rows):
        for row in rows:
            row['_id'] = row['_id'] + 1000
            row[name] = (row.get(name) or '') + '!'
            yield row
    return step


def _reference(payload, sub):
    from dataflows import Flow, add_field
    from ..core.ctx import jsonable
    spec = payload['spec']
    if spec.get('src') == 'load':
        links = [_load_source(spec, [iter(T.rows_of(t)) for t in spec['tables']])]
    elif spec.get('src') == 'package':
        links = [_package_source(spec)]
    else:
        links = [T.rows_of(t) for t in spec['tables']]
    for sp in spec.get('gsteps') or []:
        links.extend(ST.build(sp, {'calls': {}}))
    steps = {}

    def counting(name, mut):
        steps[name] = 0

        def step(rows):
            for row in rows:
                steps[name] += 1
                yield row
        return [step] if not mut else [_mut(name), step]
    for ln in spec['links']:
        if ln.startswith('cp:'):
            continue
        if ln.startswith('v'):
            from dataflows import validate
            links.append(validate())
            continue
        if ln.startswith('x'):
            from dataflows import set_type
            links.append(set_type('_id', type='integer', transform=_shift))
            continue
        if ln.startswith('m'):
            links.append(add_field(ln, 'string'))
        links.extend(counting(ln, ln.startswith('m')))
    rows, dp, _ = Flow(*links).results()
    return {'rows': jsonable(rows), 'dp': jsonable(dp.descriptor), 'steps': steps}


class C07(Prop):
    ID = 'C07'
    TITLE = 'Resuming from a checkpoint reproduces the first run'
    LEVEL = 'exploration'
    TECHNIQUE = 'deterministic simulation of run/delete/run histories over durable checkpoint state (fresh process per run with ambient TZ changes, or one re-used Flow object) against a reference model'
    SIMTIME_UNIT = 'history operations (RUN / DELETE), each RUN a full pipeline execution'
    RULE = ('one evaluation = one seeded history of 3-7 ops (RUN, DELETE(checkpoint i), DELETE_ALL) over a flow with 1-3 chained checkpoints separated by counting steps, 1-3 typed sources '
            '(0-8 rows; decimals incl. >double precision, dates, times, naive and zone-aware datetimes with positive / negative / sub-hour UTC offsets, durations, nested arrays/objects, unicode incl. '
            'newlines and U+2028), in configuration fresh (each RUN in a new process under a TZ drawn per run) or same-object (one process re-running the same Flow object). '
            'After every RUN: typed rows and descriptor equal the checkpoint-free reference; source / step execution counters equal the model. '
            'Non-trivial = at least one RUN resumed from an existing checkpoint; distinct = distinct (config, links, op kinds, value types).')
    ASSUMPTIONS = ['temporal values at second precision (what the encoding format strings claim)',
                   'same-object configuration uses re-iterable sources and stateless steps, so only the checkpoint machinery carries state between runs']
    REAL_VS_STUB = {'real': ['dataflows Flow / checkpoint / stream / unstream / extended_json', 'the file system'], 'stub': ['process environment: TZ set per run; fork per RUN in the fresh configuration']}
    PROBES = ['negative-utc-offset', 'sub-hour-offset', 'duration-value', 'time-value', 'nested-object', 'high-precision-decimal', 'tz-changed-between-runs', 'same-object-config',
              'fresh-config', 'delete-middle-checkpoint', 'resume-after-delete-all', 'three-checkpoints', 'empty-resource', 'mutating-step-after-checkpoint', 'year-below-1000', 'zero-column-rows', 'sources-through-load', 'same-object-rerun-of-load', 'validate-step-in-the-chain', 'nested-checkpoint-names', 'same-zone-name-different-offsets', 'built-in-steps-upstream-of-the-checkpoints', 'failed-run-of-the-same-flow-in-the-history', 'sources-from-a-data-package-on-disk', 'set_type-with-transform-in-the-chain'] + ['g:' + k for k in G_KINDS]
    TIERS = {'quick': dict(runs=500, wall=100, run_wall=300),
             'thorough': dict(runs=12000, wall=1700, run_wall=600)}
    SHRINK_FROZEN = ('fields',)

    def generate(self, rng, tier):
        ntab = rng.choice([1, 1, 2, 3])
        tabs, idc = [], 0
        for i in range(ntab):
            n = rng.choice([0, 1, 2, 3, 5, 8])
            tabs.append(gen_typed_table(rng, 'res_%d' % (i + 1), n, idc))
            idc += n + 1
        if rng.random() < 0.1:
            # a table whose rows carry no columns at all ({} rows): legal, and easily mistaken for an end-of-resource marker
            tabs.insert(rng.randrange(len(tabs) + 1), {'name': 'x', 'fields': [], 'rows': [[] for _ in range(rng.choice([1, 2, 3]))]})
            for i, t in enumerate(tabs):
                t['name'] = 'res_%d' % (i + 1)
        ncp = rng.choice([1, 1, 2, 2, 3])
        links = []
        for i in range(ncp):
            if rng.random() < 0.7:
                links.append(rng.choice(['s%d', 'm%d'] if all(t['fields'] for t in tabs) else ['s%d']) % i)
            if rng.random() < 0.2:
                links.append('v%d' % i)
            if rng.random() < 0.15 and all(t['fields'] for t in tabs):
                links.append('x%d' % i)
            links.append('cp:' + 'abc'[i])
        if rng.random() < 0.6:
            links.append(rng.choice(['tail', 'mtail']) if all(t['fields'] for t in tabs) else 'tail')
        names = ['abc'[i] for i in range(ncp)]
        if ncp >= 2 and rng.random() < 0.15:
            # checkpoint names that nest: 'a/x' lives in a sub-directory of checkpoint 'a'
            nested = {'a': 'a', 'b': 'a/x', 'c': 'c'}
            if rng.random() < 0.5:
                nested = {'a': 'a/x', 'b': 'a', 'c': 'c'}
            links = ['cp:' + nested[ln[3:]] if ln.startswith('cp:') else ln for ln in links]
            names = [nested[n] for n in names]
        ops = [{'op': 'run'}]
        for _ in range(rng.choice([2, 3, 4, 6])):
            r = rng.random()
            if r < 0.55:
                ops.append({'op': 'run'})
            elif r < 0.85:
                ops.append({'op': 'delete', 'name': rng.choice(names)})
            else:
                ops.append({'op': 'delete_all'})
        ops.append({'op': 'run'})
        config = rng.choice(['fresh', 'fresh', 'same-object'])
        for op in ops:
            if op['op'] == 'run' and config == 'fresh':
                op['tz'] = rng.choice(TZS)
        spec = {'tables': tabs, 'links': links}
        r_src = rng.random()
        if r_src < 0.25:
            spec['src'] = 'load'          # the sources arrive through one load((descriptor, iterators)) step instead of plain iterables
        elif r_src < 0.4 and all(t['fields'] for t in tabs):
            spec['src'] = 'package'       # ... or from a data package on disk, read with load(path)
        if spec.get('src') == 'package' and config != 'same-object' and rng.random() < 0.5:
            config = 'same-object'          # file sources are where a step can keep half-read state between runs
            for op in ops:
                op.pop('tz', None)
        if config == 'same-object' and spec.get('src') != 'load' and rng.random() < (0.8 if spec.get('src') == 'package' else 0.35) and any(not ln.startswith('cp:') and not ln.startswith('v') and not ln.startswith('x') for ln in links):
            # history op: a run of the same Flow object that fails part-way, somewhere before the last run (not with
            # (descriptor, iterators) sources: the iterators handed to load are one-shot, half-consumed after a failure)
            ops.insert(rng.randrange(1, len(ops)), {'op': 'failrun', 'at': rng.choice([0, 1, 2, 5])})
        sc = {'spec': spec, 'ops': ops, 'config': config}
        if rng.random() < 0.4 and all(t['fields'] for t in tabs) and spec.get('src') != 'load':
            # 1-3 built-in steps upstream of everything (drawn against the real descriptor in execute): do they keep state between runs?
            sc['gen'] = {'gseed': rng.randrange(2**62), 'n': rng.choice([1, 2, 3, 3])}
            if rng.random() < 0.7:
                sc['config'] = 'same-object'
                for op in ops:
                    op.pop('tz', None)
                if not any(o['op'] != 'run' for o in ops):
                    ops.insert(1, {'op': 'delete_all'})
        return sc

    def execute(self, sc, ctx):
        spec = sc['spec']
        names = cpcommon.cp_names(spec)
        if not spec['tables'] or not names:
            ctx.discard('no tables / checkpoints')
        work = os.path.join(ctx.scratch, 'work')
        os.makedirs(work)
        os.chdir(work)
        if sc.get('gen') and 'gsteps' not in spec and spec.get('src') != 'load':
            r = ctx.subrun(_expand_g, {'tables': spec['tables'], 'gseed': sc['gen']['gseed'], 'n': sc['gen']['n']})
            if r['status'] != 'ok':
                ctx.discard('generation failed: %s' % json.dumps(r.get('exc'))[:300])
            spec = dict(spec, gsteps=r['value'])
            sc = dict(sc, spec=spec)
            ctx.extra['expanded'] = sc
        if spec.get('gsteps'):
            ctx.probe('built-in-steps-upstream-of-the-checkpoints')
            for sp in spec['gsteps']:
                ctx.probe('g:' + sp['step'])
        ref = ctx.subrun(_reference, {'spec': spec})
        if ref['status'] != 'ok':
            ctx.discard('checkpoint-free reference raises: %s' % json.dumps(ref.get('exc'))[:300])
        ref = ref['value']
        total = [len(t['rows']) for t in spec['tables']]
        self._probes(sc, ctx)
        ops = sc['ops']
        if any('/' in ln for ln in spec['links']):
            ctx.probe('nested-checkpoint-names')
        zn = {}
        for t in spec['tables']:
            for row in t['rows']:
                for c in row:
                    if isinstance(c, dict) and c.get('tzname') and c.get('off') is not None:
                        zn.setdefault(c['tzname'], set()).add(c['off'])
        if any(len(v) > 1 for v in zn.values()):
            ctx.probe('same-zone-name-different-offsets')
        if any(ln.startswith('x') for ln in spec['links']):
            ctx.probe('set_type-with-transform-in-the-chain')
        if any(ln.startswith('v') for ln in spec['links']):
            ctx.probe('validate-step-in-the-chain')
        if spec.get('src') == 'package':
            ctx.probe('sources-from-a-data-package-on-disk')
        if spec.get('src') == 'load':
            ctx.probe('sources-through-load')
            if sc.get('config') == 'same-object':
                ctx.probe('same-object-rerun-of-load')
        if sc.get('config') == 'same-object':
            ctx.probe('same-object-config')
            r = ctx.subrun(_history, {'spec': spec, 'ops': ops})
            if r['status'] != 'ok':
                from ..core.ctx import HarnessError
                raise HarnessError('history sub-run failed: %s' % json.dumps(r)[:800])
            outs = r['value']
        else:
            ctx.probe('fresh-config')
            outs = []
            last_tz = None
            for op in ops:
                if op['op'] == 'run' and last_tz is not None and op.get('tz') != last_tz:
                    ctx.probe('tz-changed-between-runs')
                if op['op'] == 'run':
                    last_tz = op.get('tz')
                r = ctx.subrun(_history, {'spec': spec, 'ops': [op], 'tz': op.get('tz')})
                if r['status'] != 'ok':
                    from ..core.ctx import HarnessError
                    raise HarnessError('history sub-run failed: %s' % json.dumps(r)[:800])
                outs.extend(r['value'])
        resumed = False
        links = spec['links']
        for oi, (op, out) in enumerate(zip(ops, outs)):
            if op['op'] != 'run':
                if op['op'] == 'delete' and len(names) > 2 and op['name'] == names[1]:
                    ctx.probe('delete-middle-checkpoint')
                if op['op'] == 'failrun' and out and out.get('failed'):
                    ctx.probe('failed-run-of-the-same-flow-in-the-history')
                continue
            label = 'op#%d RUN (%s, history %s)' % (oi, sc.get('config'), ' '.join(o['op'] + (':' + o['name'] if 'name' in o else '') for o in ops[:oi + 1]))
            before = out['before']
            if any(before.values()):
                resumed = True
            if 'exc' in out:
                ctx.violation('run-raised', (out['exc'].get('cause') or out['exc'])['type'], '%s raised %s (checkpoints present before: %r)' % (label, json.dumps(out['exc'])[:500], before),
                              config=sc.get('config'), before=before)
            if out['rows'] != ref['rows']:
                from .c01 import first_diff
                diff = first_diff(out['rows'], ref['rows'])
                clause = 'resume:rows' if any(before.values()) else 'first-run:rows'
                ctx.violation(clause, 'differ', '%s: typed rows differ from the checkpoint-free run at %s (checkpoints present before: %r)' % (label, diff, before),
                              config=sc.get('config'), before=before, diff=diff)
            if out['dp'] != ref['dp']:
                ctx.violation('resume:descriptor', 'differ', '%s: descriptor differs from the checkpoint-free run: %s vs %s' % (label, json.dumps(out['dp'])[:300], json.dumps(ref['dp'])[:300]),
                              config=sc.get('config'), before=before)
            cut = -1
            for i in range(len(links) - 1, -1, -1):
                if links[i].startswith('cp:') and before[links[i][3:]]:
                    cut = i
                    break
            exp_src = [0] * len(total) if cut >= 0 or spec.get('src') == 'package' else list(total)      # (file sources are not counted)
            exp_steps = {ln: (ref['steps'][ln] if i > cut else 0) for i, ln in enumerate(links) if not ln.startswith('cp:') and not ln.startswith('v') and not ln.startswith('x')}
            if out['src'] != exp_src or out['steps'] != exp_steps:
                under = sum(out['src']) < sum(exp_src) or any(out['steps'][k] < exp_steps[k] for k in exp_steps)
                ctx.violation('not-recomputed-after-delete' if under else 'upstream-executed', 'counters',
                              '%s: with checkpoints present=%r the model expects source pulls %r and step rows %r, observed %r and %r' % (label, before, exp_src, exp_steps, out['src'], out['steps']),
                              config=sc.get('config'), before=before)
            if oi > 0 and ops[oi - 1]['op'] == 'delete_all':
                ctx.probe('resume-after-delete-all')
        if resumed:
            types = sorted(set(f['type'] for t in spec['tables'] for f in t['fields']))
            ctx.nt(sc.get('config'), links, [o['op'] for o in ops], types)
        ctx.sample = {'config': sc.get('config'), 'links': links, 'ops': ops, 'rows': total, 'types': [[f['type'] for f in t['fields']] for t in spec['tables']]}

    def focus(self, sc, rec):
        ex = rec.get('extra') or {}
        if sc.get('gen') and 'gsteps' not in sc['spec'] and ex.get('expanded'):
            return ex['expanded']
        return None

    def _probes(self, sc, ctx):
        spec = sc['spec']
        if len(cpcommon.cp_names(spec)) >= 3:
            ctx.probe('three-checkpoints')
        seen_cp = False
        for ln in spec['links']:
            if ln.startswith('cp:'):
                seen_cp = True
            elif ln.startswith('m') and seen_cp:
                ctx.probe('mutating-step-after-checkpoint')
        for t in spec['tables']:
            if not t['fields'] and t['rows']:
                ctx.probe('zero-column-rows')
            if not t['rows']:
                ctx.probe('empty-resource')
            for row in t['rows']:
                for c in row:
                    if isinstance(c, dict):
                        if ('dt' in c and c['dt'][:2] == '00') or ('date' in c and c['date'][:2] == '00'):
                            ctx.probe('year-below-1000')
                        if 'dt' in c and c.get('off') is not None:
                            if c['off'] < 0:
                                ctx.probe('negative-utc-offset')
                            if c['off'] % 3600:
                                ctx.probe('sub-hour-offset')
                        if 'td' in c:
                            ctx.probe('duration-value')
                        if 'time' in c:
                            ctx.probe('time-value')
                        if 'o' in c and any(isinstance(v, dict) for v in c['o'].values()):
                            ctx.probe('nested-object')
                        if 'd' in c and len(c['d']) > 18:
                            ctx.probe('high-precision-decimal')


PROP = C07()
