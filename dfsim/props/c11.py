"""C11 - join computes the relational join with the documented aggregates.

Reference model (dfsim/models/join.py) + the KVFile cache-size knob, so that the eviction / write-back / miss
paths of the on-disk index run with three keys; thorough additionally runs real > 10240-key tables at the
shipped cache size.
"""
import json
import random

from ..core.prop import Prop
from ..gen import tables as T
from ..models import join as M
from ..seams import faults as F

NUM_AGGS = ['sum', 'avg', 'median', 'min', 'max']
ANY_AGGS = ['first', 'last', 'count', 'counters', 'set', 'array', 'any']


def _run(payload, sub):
    import dataflows as DF
    from ..core.ctx import jsonable
    sc = payload['sc']
    kv = F.install_kv(sub, size=payload.get('kvsize'))
    spec = sc['spec']
    import copy

    rewindable = []

    class Rewindable:
        # a lawful iterator (once exhausted it stays exhausted) that the caller rewinds before the same Flow object runs again,
        # the way one would seek(0) a file; every pass hands out fresh row objects
        def __init__(self, t):
            self.t = t
            self.g = iter(T.rows_of(t))
            rewindable.append(self)

        def rewind(self):
            self.g = iter(T.rows_of(self.t))

        def __iter__(self):
            return self

        def __next__(self):
            return next(self.g)

    def src_link(t, name):
        desc = {'resources': [{'name': name, 'path': name + '.csv', 'profile': 'tabular-data-resource', 'schema': {'fields': [dict(f) for f in t['fields']]}}]}
        return DF.load((desc, [Rewindable(t) if sc.get('twice') else iter(T.rows_of(t))]), strip=False)
    links = [src_link(sc['source'], 'src')]
    if spec.get('target_key') is not None:
        links += [src_link(sc['target'], 'tgt'),
                  DF.join('src', spec['source_key'], 'tgt', spec['target_key'], fields=copy.deepcopy(spec['fields']), mode=spec['mode'],
                          source_delete=spec.get('source_delete', True))]
    else:
        links += [DF.join_with_self('src', spec['source_key'], copy.deepcopy(spec['fields']))]
    if sc.get('post_edit'):
        # a later step that edits the kept source rows in place: the aggregates must have been taken from the rows as they were
        def edit(rows):
            for row in rows:
                if rows.res.name == 'src':
                    if row.get('n1') is not None:
                        row['n1'] = row['n1'] * 100
                    row['s1'] = None
                    row['b1'] = None
                yield row
        links.append(edit)
    flow = DF.Flow(*links)
    ds = flow.datastream()
    rows = [list(r) for r in ds.res_iter]
    if sc.get('twice'):
        # the same Flow object runs again: the second result is the one that is judged
        for it in rewindable:
            it.rewind()
        ds = flow.datastream()
        rows = [list(r) for r in ds.res_iter]
    names = [r.name for r in ds.dp.resources]
    fields = {r.name: [f['name'] for f in r.descriptor['schema']['fields']] for r in ds.dp.resources}
    return {'names': names, 'rows': rows_enc(rows), 'fields': fields, 'kv_ops': kv['n']}


def rows_enc(rows):
    return [[{k: T.enc(v) if not isinstance(v, (list, tuple)) else {'l': [enc_any(x) for x in v]} for k, v in row.items()} for row in res] for res in rows]


def enc_any(x):
    if isinstance(x, (list, tuple)):
        return {'l': [enc_any(y) for y in x]}
    return T.enc(x)


def rows_dec(rows):
    return [[{k: T.dec(v) for k, v in row.items()} for row in res] for res in rows]


class C11(Prop):
    ID = 'C11'
    TITLE = 'join computes the relational join with the documented aggregates'
    LEVEL = 'exploration'
    TECHNIQUE = 'deterministic simulation with the spill knob: real join vs executable reference model of the documented semantics; differential across KVFile cache sizes'
    SIMTIME_UNIT = 'joins executed (forked), KVFile operations'
    RULE = ('one evaluation = source and target tables of 0-12 rows (duplicate, missing and null keys; integer / number / string / boolean columns) x key as field list, format string or '
            'row number x mode inner / half-outer / full-outer or deduplication x 1-4 aggregated fields over every aggregator (sum avg median min max first last count counters set array any), '
            'wildcard mapping, mapping onto existing target columns, source_delete on/off, executed under 2 KVFile cache sizes from {1,2,3,7,10240} (thorough: also > 10240 distinct keys at the shipped size). '
            'Non-trivial = at least one target row matched and one did not (or dedup with a repeated key); distinct = distinct (mode, key form, aggregators, cache sizes, table sizes).')
    ASSUMPTIONS = ['dfsim/models/join.py is the documented semantics; where the documentation leaves freedom (set order, counters order, any) the comparison uses that freedom',
                   'values are observed through datastream() (raw), the typing of aggregate fields in the schema is C02\'s business']
    REAL_VS_STUB = {'real': ['dataflows join', 'kvfile + sqlite'], 'stub': ['KVFile twin: cache-size knob and operation counter only']}
    PROBES = ['mode-inner', 'mode-half-outer', 'mode-full-outer', 'dedup-mode', 'null-key', 'duplicate-source-key', 'unmatched-target-row', 'unmatched-source-key', 'key-format-string',
              'key-row-number', 'wildcard-mapping', 'maps-onto-existing-target-column', 'falsy-first-value', 'spill-path (cache smaller than keys)', 'big-index (>10240 keys)', 'source-kept', 'kept-source-edited-later', 'equal-numbers-rendering-differently-as-keys', 'semi-join (no fields mapped)', 'second-run-of-the-same-flow'] + ['agg:' + a for a in NUM_AGGS + ANY_AGGS]
    TIERS = {'quick': dict(runs=3000, wall=100, run_wall=300),
             'thorough': dict(runs=40000, wall=1700, run_wall=600)}
    SHRINK_FROZEN = ('fields_',)

    def generate(self, rng, tier):
        big = tier == 'thorough' and rng.random() < 0.01
        ns = rng.choice([0, 1, 2, 3, 5, 8, 12]) if not big else 11000
        nt = rng.choice([0, 1, 2, 3, 5, 8, 12])
        import decimal
        keyvals = rng.choice([[1, 2, 3], ['a', 'b', 'ab'], [0, 1], ['x'], [1, 2, 3, 4, 5, 6, 7, 8],
                              # numbers that compare equal but render differently are different keys ("render the same key")
                              [T.enc(decimal.Decimal(x)) for x in ('1', '1.0', '1.00', '2', '2.0')]])
        ktype = 'integer' if isinstance(keyvals[0], int) else 'number' if isinstance(keyvals[0], dict) else 'string'

        def table(name, n, extra, idbase):
            fields = [{'name': '_id', 'type': 'integer'}, {'name': 'k', 'type': ktype}, {'name': 'k2', 'type': 'string'}] + extra
            rows = []
            for i in range(n):
                kv = (i if big else rng.choice(keyvals)) if rng.random() > 0.12 else None
                row = [idbase + i, kv, rng.choice(['p', 'q'])]
                for f in extra:
                    row.append(T.enc(self._val(rng, f['type'])))
                rows.append(row)
            return {'name': name, 'fields': fields, 'rows': rows}
        sextra = [{'name': 'n1', 'type': 'integer'}, {'name': 'n2', 'type': 'number'}, {'name': 's1', 'type': 'string'}, {'name': 'b1', 'type': 'boolean'}]
        textra = [{'name': 't1', 'type': 'string'}] + ([{'name': 's1', 'type': 'string'}] if rng.random() < 0.3 else [])
        source = table('src', ns, sextra, 0)
        target = table('tgt', nt, textra, 1000)
        form = rng.choice(['list', 'list', 'list2', 'format', 'format2', 'rownum'])
        if form == 'list':
            sk, tk = ['k'], ['k']
        elif form == 'list2':
            sk, tk = ['k', 'k2'], ['k', 'k2']
        elif form == 'format':
            sk, tk = 'K{k}', 'K{k}'
        elif form == 'format2':
            sk, tk = '{k}/{k2}', '{k}/{k2}'
        else:
            sk, tk = '{#}', '{#}'
        fields = {}
        for i in range(rng.randrange(1, 5)):
            r = rng.random()
            if r < 0.4:
                src_f = rng.choice(['n1', 'n2'])
                agg = rng.choice(NUM_AGGS + ANY_AGGS)
            elif r < 0.6:
                src_f = 's1'
                agg = rng.choice(['min', 'max', 'sum'] + ANY_AGGS)
            elif r < 0.7:
                src_f = 'b1'
                agg = rng.choice(ANY_AGGS)
            else:
                src_f = rng.choice(['n1', 'n2', 's1', 'b1'])
                agg = rng.choice(ANY_AGGS)
            name = 'f%d' % i
            spec = {'name': src_f, 'aggregate': agg}
            if agg == 'count' and rng.random() < 0.5:
                spec = {'aggregate': 'count'}
            if rng.random() < 0.12 and src_f == 's1' and agg in ('first', 'last', 'any', 'min', 'max', 'sum'):
                name = 's1'                      # target field named like the source field (maps onto an existing target column if the target has s1)
                spec = {'aggregate': agg}
            fields[name] = spec
        if rng.random() < 0.15:
            fields['*'] = {'aggregate': rng.choice(['first', 'last', 'any'])}
        if rng.random() < 0.07:
            fields = {}          # a semi-join: nothing is copied over, the source only decides which target rows stay
        dedup = rng.random() < 0.2 and not big
        # (with > 10240 source keys the outputs that are compared as multisets - full-outer extras, deduplication - would need a
        # quadratic one-to-one matching: the big index is exercised through the ordered target lookups of inner / half-outer)
        spec = {'source_key': sk, 'target_key': None if dedup else tk, 'fields': fields, 'mode': rng.choice(['inner', 'half-outer', 'half-outer', 'full-outer'] if not big else ['inner', 'half-outer']),
                'source_delete': rng.random() < 0.7}
        twice = rng.random() < 0.12 and not big
        return {'twice': twice, 'source': source, 'target': target, 'spec': spec, 'post_edit': (not dedup) and (not spec['source_delete']) and rng.random() < 0.6, 'kv': rng.sample([1, 2, 3, 7, 10240], 2) if not big else [10240, 10240]}

    def _val(self, rng, t):
        import decimal
        if rng.random() < 0.2:
            return None
        if t == 'integer':
            return rng.choice([0, 0, 1, 2, 5, -3, 10])
        if t == 'number':
            return rng.choice([decimal.Decimal('0'), decimal.Decimal('1.5'), decimal.Decimal('-2.25'), decimal.Decimal('10')])
        if t == 'boolean':
            return rng.random() < 0.5
        return rng.choice(['a', 'b', 'zz', 'A', 'a b'])

    def execute(self, sc, ctx):
        spec = sc['spec']
        src_rows, tgt_rows = T.rows_of(sc['source']), T.rows_of(sc['target'])
        sfn = [f['name'] for f in sc['source']['fields']]
        explicit = [k for k, v in spec['fields'].items() if v and v.get('aggregate') == 'count' and 'name' in v]
        try:
            want = M.model(src_rows, tgt_rows, spec, sfn, explicit)
        except Exception as e:  # noqa
            ctx.discard('model cannot evaluate: %s: %s' % (type(e).__name__, e))
        self._probes(sc, ctx, src_rows, tgt_rows, want)
        outs = []
        for kvsize in (sc.get('kv') or [2, 10240])[:2]:
            r = ctx.subrun(_run, {'sc': sc, 'kvsize': kvsize}, wall=500)
            outs.append((kvsize, r))
        desc = 'spec=%s source=%s target=%s' % (json.dumps(spec), json.dumps(sc['source']['rows'])[:300], json.dumps(sc['target']['rows'])[:300])
        ctx.sample = {'spec': spec, 'source_rows': len(src_rows), 'target_rows': len(tgt_rows), 'kv': sc.get('kv')}
        from ..core.ctx import Violation
        try:
            self._compare(sc, ctx, outs, resolve(want, 'nonnull'), desc, src_rows, sfn)
        except Violation as strict:
            if not explicit:
                raise
            try:
                self._compare(sc, ctx, outs, resolve(want, 'all'), desc, src_rows, sfn)
            except Violation:
                raise strict
            # everything agrees with the model once count-with-a-name is read as "count all matching rows":
            # known finding C11-count-with-name-counts-nulls, and nothing else is wrong with this run
            ctx.violation('aggregate:count', 'counts-nulls', 'count with an explicit source field name counts all matching rows, nulls included (documented: non-null values only); '
                          'first difference under the documented reading: %s' % strict.message[:600], field=explicit[0], counts_all=True)

    def _compare(self, sc, ctx, outs, want, desc, src_rows, sfn):
        spec = sc['spec']
        dedup = spec.get('target_key') is None
        fields = M.expand_fields(spec['fields'], sfn)
        for kvsize, r in outs:
            if r['status'] != 'ok':
                cause = (r['exc'].get('cause') or r['exc'])
                ctx.violation('raised', cause['type'], 'join raised %s: %s (KVFile cache size %r); %s' % (cause['type'], cause['str'][:200], kvsize, desc), kvsize=kvsize,
                              aggs=sorted(set(f['aggregate'] for f in fields.values())))
            v = r['value']
            rows = rows_dec(v['rows'])
            names = v['names']
            if v['kv_ops'] and kvsize < len(set(M.render(spec['source_key'], row, n) for n, row in enumerate(src_rows, 1))):
                ctx.probe('spill-path (cache smaller than keys)')
            exp_names = ['src'] if dedup else ([] if spec.get('source_delete', True) else ['src']) + ['tgt']
            if names != exp_names:
                ctx.violation('schema', 'resources', 'output resources %r, expected %r; %s' % (names, exp_names, desc), kvsize=kvsize)
            if not dedup and not spec.get('source_delete', True):
                exp_src = src_rows
                if sc.get('post_edit'):
                    exp_src = [dict(r, n1=(r['n1'] * 100 if r.get('n1') is not None else None), s1=None, b1=None) for r in src_rows]
                if rows[0] != exp_src:
                    ctx.violation('target-rows', 'source-changed', 'the kept source resource changed; %s' % desc, kvsize=kvsize)
            got = rows[-1]
            if dedup:
                self._multiset(ctx, got, want['dedup'], list(fields), 'dedup-output', kvsize, desc)
                continue
            tf = [f['name'] for f in sc['target']['fields']]
            tnames = tf + [k for k in fields if k not in tf]
            exp = want['target']
            head = got[:len(exp)]
            if len(got) < len(exp):
                ctx.violation('unmatched-handling' if spec['mode'] != 'inner' else 'target-rows', 'missing-rows', 'join emitted %d target rows, the model %d (mode %s, KVFile cache size %r); %s' % (
                    len(got), len(exp), spec['mode'], kvsize, desc), kvsize=kvsize)
            for i, (g, e) in enumerate(zip(head, exp)):
                bad = M.row_matches(g, e, tnames)
                if bad is not None:
                    agg = fields.get(bad, {}).get('aggregate')
                    clause = 'aggregate:%s' % agg if agg and (bad not in tf or g.get('_id') == e.get('_id')) else 'target-rows'
                    ctx.violation(clause, bad, 'target row %d field %r: join gives %r, the model %r (row: %r vs %r; mode %s; KVFile cache size %r); %s' % (
                        i, bad, g.get(bad), e.get(bad), g, e, spec['mode'], kvsize, desc), kvsize=kvsize, field=bad, agg=agg)
            tail = got[len(exp):]
            if spec['mode'] != 'full-outer':
                if tail:
                    ctx.violation('unmatched-handling', 'extra-rows', 'join emitted %d rows beyond the target rows in mode %s: %r; %s' % (len(tail), spec['mode'], tail[:3], desc), kvsize=kvsize)
            else:
                self._multiset(ctx, tail, want['extras'], tnames, 'unmatched-handling', kvsize, desc)
        if outs[0][1]['value']['rows'] != outs[1][1]['value']['rows']:
            a, b = rows_dec(outs[0][1]['value']['rows'])[-1], rows_dec(outs[1][1]['value']['rows'])[-1]
            if sorted(map(repr, a)) != sorted(map(repr, b)) or (not dedup and spec['mode'] != 'full-outer'):
                ctx.violation('cache-size-dependence', 'differ', 'results differ between KVFile cache sizes %r and %r; %s' % (outs[0][0], outs[1][0], desc))

    def _multiset(self, ctx, got, exp, names, clause, kvsize, desc):
        if len(got) != len(exp):
            ctx.violation(clause, 'count', 'join emitted %d rows where the model has %d: got %r, expected %r (KVFile cache size %r); %s' % (len(got), len(exp), got[:4], exp[:4], kvsize, desc), kvsize=kvsize)
        # bipartite matching (the model rows may carry freedoms such as 'any', so greedy assignment is not enough)
        adj = [[j for j, e in enumerate(exp) if M.row_matches(g, e, names) is None] for g in got]
        match = {}

        import sys
        sys.setrecursionlimit(max(sys.getrecursionlimit(), 4 * len(got) + 1000))

        def aug(i, seen):
            for j in adj[i]:
                if j in seen:
                    continue
                seen.add(j)
                if j not in match or aug(match[j], seen):
                    match[j] = i
                    return True
            return False
        for i in range(len(got)):
            if not aug(i, set()):
                ctx.violation(clause, 'row', 'join emitted %r, which cannot be matched one-to-one with the model rows %r (KVFile cache size %r); %s' % (got[i], exp[:6], kvsize, desc), kvsize=kvsize)

    def _probes(self, sc, ctx, src_rows, tgt_rows, want):
        spec = sc['spec']
        dedup = spec.get('target_key') is None
        if dedup:
            ctx.probe('dedup-mode')
        else:
            ctx.probe('mode-' + spec['mode'])
        if any(r.get('k') is None for r in src_rows + tgt_rows):
            ctx.probe('null-key')
        sk = [M.render(spec['source_key'], r, n) for n, r in enumerate(src_rows, 1)]
        if len(set(sk)) < len(sk):
            ctx.probe('duplicate-source-key')
        kv = [r.get('k') for r in src_rows + tgt_rows if r.get('k') is not None]
        if len(set(kv)) < len(set(str(x) for x in kv)):
            ctx.probe('equal-numbers-rendering-differently-as-keys')
        if len(set(sk)) > 10240:
            ctx.probe('big-index (>10240 keys)')
        if isinstance(spec['source_key'], str):
            ctx.probe('key-row-number' if '#' in spec['source_key'] else 'key-format-string')
        if sc.get('twice'):
            ctx.probe('second-run-of-the-same-flow')
        if not spec['fields']:
            ctx.probe('semi-join (no fields mapped)')
        if '*' in spec['fields']:
            ctx.probe('wildcard-mapping')
        if not spec.get('source_delete', True):
            ctx.probe('source-kept')
        if sc.get('post_edit'):
            ctx.probe('kept-source-edited-later')
        tf = [f['name'] for f in sc['target']['fields']]
        if any(k in tf for k in spec['fields']) or ('*' in spec['fields']):
            ctx.probe('maps-onto-existing-target-column')
        for v in spec['fields'].values():
            if v:
                ctx.probe('agg:' + v.get('aggregate', 'any'))
        nontriv = False
        if not dedup:
            tk = [M.render(spec['target_key'], r, n) for n, r in enumerate(tgt_rows, 1)]
            matched = [k in set(sk) for k in tk]
            if any(matched) and not all(matched):
                ctx.probe('unmatched-target-row')
                nontriv = True
            if set(sk) - set(tk):
                ctx.probe('unmatched-source-key')
        else:
            nontriv = len(set(sk)) < len(sk)
        for k in set(sk):
            rows = [r for r, kk in zip(src_rows, sk) if kk == k]
            for f in ('n1', 'n2', 'b1', 's1'):
                nn = [r.get(f) for r in rows if r.get(f) is not None]
                if len(nn) > 1 and not nn[0] and nn[1]:
                    ctx.probe('falsy-first-value')
        if nontriv:
            ctx.nt(spec['mode'] if not dedup else 'dedup', json.dumps(spec['source_key']), sorted((v or {}).get('aggregate', 'any') for v in spec['fields'].values()),
                   sc.get('kv'), len(src_rows), len(tgt_rows))


PROP = C11()


def resolve(want, mode):
    """choose the reading of count-with-a-name: 'nonnull' (documented) or 'all'"""
    def fix(row):
        return {k: (v['~count'][mode] if isinstance(v, dict) and '~count' in v else v) for k, v in row.items()}
    return {k: [fix(r) for r in rows] for k, rows in want.items()}
