"""C14 - set_type and validate cast valid values and apply the error policy exactly.

The property has a fault in it: an uncastable value arriving at an arbitrary row, possibly in several fields at
once, and a policy that says what the run must do about it.  It is decided by injecting the fault (`corrupt-cell`:
the stream analogue of a flipped stored byte) into a run whose fault-free twin R0 is the reference.
"""
import json
import random

from ..core.prop import Prop
from ..gen import tables as T

TYPES = ['integer', 'number', 'boolean', 'date', 'time', 'datetime', 'year', 'string', 'array', 'object']
VALID = {
    'integer': ['12', '-3', '0', 7, '1000000000000', 1, 0, 1],
    'number': ['1.5', '-2.25', '1e3', '0', '10', {'d': '3.75'}],
    'boolean': ['true', 'false', 'True', 'FALSE', '1', '0', True, False, True],
    'date': ['2020-01-31', '1999-12-01', {'date': '2024-02-29'}],
    'time': ['12:30:00', '00:00:01', {'time': '23:59:59'}],
    'datetime': ['2020-01-31T10:00:00Z', '1999-12-01T23:59:59Z'],
    'year': ['2020', '1999', 2024],
    'string': ['a', 'b c', 'é', '12', 'true'],
    'array': ['[1, 2]', '[]', '["x"]', {'l': [1, 'a']}],
    'object': ['{"a": 1}', '{}', {'o': {'k': 'v'}}],
}
BAD = {'integer': ['bad!', '1.5', 'x12', '--3', True, False, {'f': '1.0'}], 'number': ['bad!', '1,5x', 'one', True], 'boolean': ['maybe', 'yes!', '2', 1, 0, {'f': '1.0'}], 'date': ['31/01/2020', '2020-13-45', 'bad!'],
       'time': ['25:00:00', 'noon'], 'datetime': ['2020-01-31', 'bad!'], 'year': ['20x0', 'bad!'], 'array': ['{"a": 1}', 'bad!', '[1,'], 'object': ['[1]', 'bad!']}
POLICIES = ['raise', 'drop', 'ignore', 'clear', 'custom4', 'custom5', 'custom5d', 'custom5c', 'default']


def field_desc(f):
    d = {'name': f['name'], 'type': f['type']}
    if f.get('options'):
        d.update(f['options'])
    return d


def _run(payload, sub):
    import dataflows as DF
    from dataflows import schema_validator as SV
    sc = payload['sc']
    corrupt = payload.get('corrupt') or []
    step = sc['step']
    resources, iters = [], []
    for ti, t in enumerate(sc['tables']):
        fields = []
        for f in t['fields']:
            if step['kind'] == 'set_type' and f.get('checked') and step['set_types'] and step['set_types'][0].get('no_type'):
                fields.append({'name': f['name'], 'type': f['type']})
            elif step['kind'] == 'set_type' and f.get('checked'):
                fields.append({'name': f['name'], 'type': 'string' if all(isinstance(r[ci], str) or r[ci] is None for r in t['rows'] for ci in [t['fields'].index(f)]) else 'any'})
            else:
                fields.append(field_desc(f))
        resources.append({'name': t['name'], 'path': t['name'] + '.csv', 'profile': 'tabular-data-resource', 'schema': {'fields': fields}})
        names = [f['name'] for f in t['fields']]
        rows = [dict(zip(names, [T.dec(c) for c in row])) for row in t['rows']]
        for (cti, ri, name, val) in corrupt:
            if cti == ti and ri < len(rows):
                rows[ri][name] = T.dec(val)
        iters.append(iter(rows))
    calls = []
    answers = sc.get('answers') or [True]
    pol = sc['policy']

    def h4(res_name, row, i, e):
        calls.append([res_name, i, None, type(e).__name__])
        return answers[(len(calls) - 1) % len(answers)]

    def h5(res_name, row, i, e, field):
        calls.append([res_name, i, getattr(field, 'name', None), type(e).__name__])
        return answers[(len(calls) - 1) % len(answers)]

    def h5d(res_name, row, i, e, field=None):
        # the fifth parameter is optional in the handler's own signature: it is still a five-argument handler
        calls.append([res_name, i, getattr(field, 'name', None), type(e).__name__])
        return answers[(len(calls) - 1) % len(answers)]

    def h5c(res_name, row, i, e, field=None):
        # a hand-written clear policy: nulls the offending cell and keeps the row
        calls.append([res_name, i, getattr(field, 'name', None), type(e).__name__])
        if field is not None:
            row[field.name] = None
            return True
        return False
    on_error = {'raise': SV.raise_exception, 'drop': SV.drop, 'ignore': SV.ignore, 'clear': SV.clear, 'custom4': h4, 'custom5': h5, 'custom5d': h5d, 'custom5c': h5c, 'default': None}[pol]
    links = [DF.load(({'resources': resources}, iters), strip=False)]
    kw = {} if pol == 'default' else {'on_error': on_error}
    if step['kind'] == 'validate':
        if 'resources' in step:
            kw = dict(kw, resources=step['resources'])
        links.append(DF.validate(**kw))
    else:
        for st in step['set_types']:
            opts = dict(st.get('options') or {})
            if st.get('transform'):
                opts['transform'] = {'strip': (lambda v: v.strip() if isinstance(v, str) else v), 'rowaware': (lambda v, row=None, field_name=None: v)}[st['transform']]
            if not st.get('no_type'):
                opts['type'] = st['type']
            links.append(DF.set_type(st['name'], resources=st.get('resources', -1), regex=st.get('regex', True), **opts, **kw))
    ds = DF.Flow(*links).datastream()
    try:
        rows = [list(r) for r in ds.res_iter]
    except DF.ValidationError as e:
        return {'verr': {'resource': e.resource_name, 'index': e.index, 'row_id': (e.row or {}).get('id'), 'cast_error': type(e.cast_error).__name__}, 'calls': calls}
    return {'rows': [[{k: enc(v) for k, v in row.items()} for row in res] for res in rows], 'calls': calls,
            'types': [[(f['name'], f['type']) for f in r.descriptor['schema']['fields']] for r in ds.dp.resources]}


def enc(v):
    try:
        return T.enc(v)
    except TypeError:
        return {'repr': repr(v)}


def expected_cast(f, cell):
    from tableschema import Field
    return Field(field_desc(f), missing_values=['']).cast_value(T.dec(cell))


class C14(Prop):
    ID = 'C14'
    TITLE = 'set_type and validate cast valid values and apply the error policy exactly'
    LEVEL = 'exploration'
    TECHNIQUE = 'deterministic simulation with data-plane fault injection (corrupt-cell at seeded sites) and a fault-free twin run as differential oracle; Table Schema\'s own Field.cast_value as the cast reference'
    SIMTIME_UNIT = 'pairs of runs (fault-free twin + faulted run), each forked'
    RULE = ('one evaluation = 1-2 resources (0-12 rows) whose checked cells are valid lexical or native values of integer / number / boolean / date / time / datetime / year / string / array / object '
            '(options: date format, minimum, required, transform), step = validate() or set_type by name / regex / selected resource, policy in {raise, drop, ignore, clear, custom 4-arg, custom 5-arg, custom 5-arg whose fifth parameter has a default, hand-written clear, default}; '
            'fault-free twin R0, then a run with 0-4 cells replaced by invalid lexical values (several fields of one row included; null into a required field). '
            'Non-trivial = at least one corrupted cell; distinct = distinct (step, policy, corrupted types, number of sites, site positions first/middle/last).')
    ASSUMPTIONS = ['"Table Schema\'s cast" = tableschema.Field(descriptor, missing_values=[""]).cast_value', 'rows are observed through datastream() (the step\'s raw output)']
    REAL_VS_STUB = {'real': ['dataflows set_type / validate / schema_validator, tableschema casts'], 'stub': ['corrupt-cell injector between source and step', 'logging custom handlers answering by a seeded pattern']}
    PROBES = ['sibling-field-name-extends-the-literal-name', 'validate-with-resources-selector', 'two-sites-in-one-row', 'site-in-first-row', 'site-in-last-row', 'required-null', 'regex-multi-field', 'resources-selected', 'transform', 'constraint-minimum', 'date-format',
              'failing-field-followed-by-lexical-field', 'set_type-without-type-argument', 'equal-values-of-different-python-types'] + ['policy:' + p for p in POLICIES]
    TIERS = {'quick': dict(runs=3000, wall=100, run_wall=300),
             'thorough': dict(runs=60000, wall=1700, run_wall=600)}
    SHRINK_FROZEN = ('fields',)

    def generate(self, rng, tier):
        ntab = rng.choice([1, 1, 2])
        kind = rng.choice(['validate', 'set_type', 'set_type'])
        tables = []
        for ti in range(ntab):
            k = rng.randrange(1, 5)
            fields = [{'name': 'id', 'type': 'integer'}]
            group_type = rng.choice(TYPES[:7])
            for j in range(k):
                t = group_type if (kind == 'set_type' and rng.random() < 0.5) else rng.choice(TYPES)
                f = {'name': '%s_%d' % (t[:3], j), 'type': t, 'checked': True}
                r = rng.random()
                if t == 'date' and r < 0.3:
                    f['options'] = {'format': '%d/%m/%Y'}
                elif t in ('integer', 'number') and r < 0.2:
                    f['options'] = {'constraints': {'minimum': -5}}
                elif r < 0.12 and t != 'string':
                    f['options'] = {'constraints': {'required': True}}
                fields.append(f)
            n = rng.choice([0, 1, 2, 3, 5, 8, 12])
            rows = []
            for i in range(n):
                row = [i]
                for f in fields[1:]:
                    req = (f.get('options') or {}).get('constraints', {}).get('required')
                    if rng.random() < 0.15 and not req:
                        row.append(None)
                    else:
                        v = rng.choice(VALID[f['type']])
                        if f['type'] == 'date' and (f.get('options') or {}).get('format') and isinstance(v, str):
                            y, m, d = v.split('-')
                            v = '%s/%s/%s' % (d, m, y)
                        if f['type'] in ('integer', 'number') and (f.get('options') or {}).get('constraints', {}).get('minimum') is not None:
                            v = rng.choice(['12', '0', '7'])
                        row.append(v)
                rows.append(row)
            tables.append({'name': 'res_%d' % (ti + 1), 'fields': fields, 'rows': rows})
        step = {'kind': kind}
        if kind == 'validate' and ntab == 2 and rng.random() < 0.4:
            # validate(resources=...): the other resource is not checked and passes through as it is
            ti = rng.randrange(2)
            step['resources'] = rng.choice([tables[ti]['name'], [tables[ti]['name']], ti, ti - 2])
            for f in tables[1 - ti]['fields']:
                f.pop('checked', None)
        if kind == 'set_type':
            # ONE set_type step: a name or a regex over same-typed fields of one resource; everything else is unchecked
            ti = ntab - 1 if rng.random() < 0.7 else 0
            t = tables[ti]
            by_type = {}
            for f in t['fields'][1:]:
                by_type.setdefault((f['type'], json.dumps(f.get('options'), sort_keys=True)), []).append(f)
            (ty, _), fs = rng.choice(sorted(by_type.items(), key=lambda kv: kv[0]))
            if len(fs) > 1 and rng.random() < 0.7:
                st = {'name': ty[:3] + '_.*', 'type': ty, 'regex': True}
                same_prefix = [f for f in t['fields'][1:] if f['name'].startswith(ty[:3] + '_')]
                fs = same_prefix if all((f['type'], json.dumps(f.get('options'), sort_keys=True)) == (ty, _) for f in same_prefix) else fs[:1]
                if len(fs) == 1:
                    st = {'name': fs[0]['name'], 'type': ty, 'regex': rng.random() < 0.5}
            else:
                fs = fs[:1]
                st = {'name': fs[0]['name'], 'type': ty, 'regex': rng.random() < 0.5}
            st['options'] = fs[0].get('options')
            if ty in ('integer', 'number') and (st['options'] or {}).get('constraints', {}).get('minimum') is not None and rng.random() < 0.6:
                # the field is already typed and holds native values; set_type only tightens it (no type= argument): rows must still be re-checked
                st['no_type'] = True
                for f in fs:
                    ci = t['fields'].index(f)
                    for row in t['rows']:
                        if row[ci] is not None:
                            row[ci] = int(row[ci]) if not isinstance(row[ci], dict) else row[ci]
            st['resources'] = rng.choice([ti, t['name'], [t['name']], ti - ntab])
            if rng.random() < 0.15:
                st['transform'] = rng.choice(['strip', 'rowaware'])
            step['set_types'] = [st]
            step['table'] = ti
            chosen = set(f['name'] for f in fs)
            for oti, ot in enumerate(tables):
                for ci, f in enumerate(ot['fields']):
                    if f['name'] == 'id' or (oti == ti and f['name'] in chosen):
                        continue
                    f.pop('checked', None)
                    f['type'] = 'string'
                    f.pop('options', None)
                    for row in ot['rows']:
                        row[ci] = None if row[ci] is None else (str(row[ci]) if not isinstance(row[ci], dict) else 'x')
            if len(step['set_types']) == 1 and len(chosen) == 1 and not step['set_types'][0].get('regex') and rng.random() < 0.5:
                # a sibling field whose name merely *starts with* the literal name given to set_type: not selected, not checked
                t = tables[ti]
                sib = {'name': list(chosen)[0] + ' (old)', 'type': 'string'}
                t['fields'].append(sib)
                for row in t['rows']:
                    row.append(rng.choice(['n/a', 'abc', None, '12x']))
                step['sibling'] = sib['name']
        sites = []
        checked_tabs = [ti for ti, t in enumerate(tables) if any(f.get('checked') for f in t['fields']) and t['rows']]
        nsites = rng.choice([0, 1, 1, 2, 3, 4]) if checked_tabs else 0
        for _ in range(nsites):
            ti = rng.choice(checked_tabs)
            t = tables[ti]
            ri = rng.choice([0, len(t['rows']) - 1, rng.randrange(len(t['rows']))])
            if sites and rng.random() < 0.4:
                ti, ri = sites[-1][0], sites[-1][1]
                t = tables[ti]
            cand = [f for f in t['fields'] if f.get('checked') and (f['type'] != 'string' or (f.get('options') or {}).get('constraints'))]
            if not cand:
                continue
            f = rng.choice(cand)
            if (f.get('options') or {}).get('constraints', {}).get('required') and rng.random() < 0.6:
                val = None
            elif (f.get('options') or {}).get('constraints', {}).get('minimum') is not None and (rng.random() < 0.5 or (step.get('set_types') and step['set_types'][0].get('no_type'))):
                val = -99 if (step.get('set_types') and step['set_types'][0].get('no_type')) else '-99'
            elif f['type'] == 'string':
                continue
            else:
                val = rng.choice(BAD[f['type']])
            try:
                expected_cast(f, val)
                continue            # Table Schema accepts it under this field's options: not a fault
            except Exception:  # noqa
                pass
            if not any(s[0] == ti and s[1] == ri and s[2] == f['name'] for s in sites):
                sites.append([ti, ri, f['name'], val])
        return {'tables': tables, 'step': step, 'policy': rng.choice(POLICIES), 'sites': sites, 'answers': [rng.random() < 0.6 for _ in range(rng.randrange(1, 4))]}

    def execute(self, sc, ctx):
        if (sc.get('step') or {}).get('sibling'):
            ctx.probe('sibling-field-name-extends-the-literal-name')
        if (sc.get('step') or {}).get('kind') == 'validate' and 'resources' in (sc.get('step') or {}):
            ctx.probe('validate-with-resources-selector')
        step, pol = sc['step'], sc['policy']
        sites = [s for s in sc.get('sites') or [] if s[0] < len(sc['tables']) and s[1] < len(sc['tables'][s[0]]['rows'])]
        ctx.probe('policy:' + pol)
        desc = 'step=%s policy=%s sites=%s fields=%s' % (json.dumps(step), pol, json.dumps(sites), json.dumps([[(f['name'], f['type'], f.get('options')) for f in t['fields']] for t in sc['tables']])[:600])
        r0 = ctx.subrun(_run, {'sc': sc, 'corrupt': []})
        if r0['status'] != 'ok':
            ctx.violation('valid-row-dropped', 'raised', 'the fault-free run (every checked cell valid) raised %s; %s' % (json.dumps(r0['exc'])[:400], desc))
        R0 = r0['value']
        if 'verr' in R0:
            ctx.violation('valid-row-dropped', 'raised', 'the fault-free run (every checked cell valid) raised a ValidationError %r; %s' % (R0['verr'], desc))
        # R0 against Table Schema's own cast
        for ti, t in enumerate(sc['tables']):
            got = R0['rows'][ti]
            if len(got) != len(t['rows']):
                ctx.violation('valid-row-dropped', 'count', 'fault-free run: resource %s has %d rows, %d went in; %s' % (t['name'], len(got), len(t['rows']), desc))
            for ri, (g, row) in enumerate(zip(got, t['rows'])):
                for ci, f in enumerate(t['fields']):
                    cell = row[ci]
                    if f.get('checked'):
                        try:
                            want = enc(expected_cast(f, cell))
                        except Exception as e:  # noqa
                            ctx.discard('generator produced a value Table Schema rejects: %r for %r: %s' % (cell, f, e))
                        if g.get(f['name']) != want:
                            ctx.violation('cast-value', f['type'], 'fault-free run: resource %s row %d field %s: emitted %r, Table Schema casts %r to %r; %s' % (
                                t['name'], ri, f['name'], g.get(f['name']), cell, want, desc), ftype=f['type'])
                    else:
                        if g.get(f['name']) != enc(T.dec(cell)):
                            ctx.violation('untouched-changed', f['name'], 'fault-free run: unchecked field %s of resource %s row %d changed from %r to %r; %s' % (
                                f['name'], t['name'], ri, cell, g.get(f['name']), desc))
        if R0['calls']:
            ctx.violation('handler-calls', 'spurious', 'the error handler was called %d times on valid data; %s' % (len(R0['calls']), desc))
        self._probes(sc, sites, ctx)
        if not sites:
            ctx.sample = {'step': step, 'policy': pol, 'sites': []}
            return
        r1 = ctx.subrun(_run, {'sc': sc, 'corrupt': sites})
        ctx.fault('corrupt-cell', len(sites))
        # sites in row-major order: (table, row, field index)
        def fidx(s):
            return [f['name'] for f in sc['tables'][s[0]]['fields']].index(s[2])
        order = sorted(sites, key=lambda s: (s[0], s[1], fidx(s)))
        bad_rows = {}
        for s in order:
            bad_rows.setdefault((s[0], s[1]), []).append(s)
        ctx.nt(step['kind'], pol, sorted(set(sc['tables'][s[0]]['fields'][fidx(s)]['type'] for s in sites)), len(sites),
               sorted(set('first' if s[1] == 0 else 'last' if s[1] == len(sc['tables'][s[0]]['rows']) - 1 else 'mid' for s in sites)))
        ctx.sample = {'step': step, 'policy': pol, 'sites': sites, 'rows': [len(t['rows']) for t in sc['tables']]}

        def expect_rows(keep, cleared=False, corrupted_as_injected=True):
            """R0 with the given treatment of rows containing sites; keep(ti, ri) -> bool"""
            out = []
            for ti, t in enumerate(sc['tables']):
                rows = []
                for ri, g in enumerate(R0['rows'][ti]):
                    if (ti, ri) in bad_rows:
                        if not keep(ti, ri):
                            continue
                        g = dict(g)
                        for s in bad_rows[(ti, ri)]:
                            g[s[2]] = None if cleared else enc(T.dec(s[3]))
                    rows.append(g)
                out.append(rows)
            return out

        eff = 'raise' if pol == 'default' else pol
        if eff == 'raise':
            first = order[0]
            if r1['status'] != 'ok':
                ctx.violation('policy:raise', 'exception-type', 'policy raise: raised %s instead of a ValidationError; %s' % (json.dumps(r1['exc'])[:300], desc))
            ve = r1['value'].get('verr')
            if ve is None:
                ctx.violation('policy:raise', 'returned', 'policy raise: the run returned normally although %d cells are invalid; %s' % (len(sites), desc))
            want_id = sc['tables'][first[0]]['rows'][first[1]][0]
            want = {'resource': sc['tables'][first[0]]['name'], 'index': first[1], 'row_id': want_id}
            got = {k: ve.get(k) for k in want}
            if got != want:
                ctx.violation('policy:raise', 'wrong-row', 'policy raise: the ValidationError carries %r, the first offending row is %r; %s' % (got, want, desc))
            return
        if r1['status'] != 'ok':
            ctx.violation('policy:' + eff, 'raised', 'policy %s: the run raised %s; %s' % (eff, json.dumps(r1['exc'])[:400], desc))
        R1 = r1['value']
        if 'verr' in R1:
            ctx.violation('policy:' + eff, 'raised', 'policy %s: the run raised a ValidationError %r; %s' % (eff, R1['verr'], desc))
        if eff == 'drop':
            exp = expect_rows(lambda ti, ri: False)
        elif eff == 'ignore':
            exp = expect_rows(lambda ti, ri: True)
        elif eff == 'clear':
            exp = expect_rows(lambda ti, ri: True, cleared=True)
        else:
            # custom handler: one call per site in row-major order, answers by the seeded pattern
            answers = sc.get('answers') or [True]
            want_calls = []
            decisions = {}
            for n, s in enumerate(order):
                a = answers[n % len(answers)]
                want_calls.append([sc['tables'][s[0]]['name'], s[1], s[2] if eff in ('custom5', 'custom5d', 'custom5c') else None])
                decisions.setdefault((s[0], s[1]), []).append(a)
            got_calls = [c[:3] for c in R1['calls']]
            if got_calls != want_calls:
                ctx.violation('handler-calls', eff, 'custom handler calls %r, expected one call per offending (row, field) in row-major order: %r; %s' % (got_calls, want_calls, desc))
            if any(c[3] != 'CastError' for c in R1['calls']):
                ctx.violation('handler-calls', 'exception', 'custom handler received %r instead of a CastError; %s' % ([c[3] for c in R1['calls']], desc))
            exp = expect_rows(lambda ti, ri: all(decisions[(ti, ri)])) if eff != 'custom5c' else expect_rows(lambda ti, ri: True, cleared=True)
        for ti, t in enumerate(sc['tables']):
            got, want = R1['rows'][ti], exp[ti]
            gid, wid = [g.get('id') for g in got], [w.get('id') for w in want]
            if gid != wid:
                missing = [i for i in wid if i not in gid]
                clause = 'valid-row-dropped' if any((ti, i) not in bad_rows for i in missing) else 'policy:' + eff
                ctx.violation(clause, 'rows', 'policy %s: resource %s emits row ids %r, expected %r; %s' % (eff, t['name'], gid, wid, desc))
            for g, w in zip(got, want):
                if g != w:
                    ri = g.get('id')
                    diff = [k for k in w if g.get(k) != w.get(k)]
                    clause = 'valid-row-altered' if (ti, ri) not in bad_rows else 'policy:' + eff
                    ctx.violation(clause, 'cells', 'policy %s: resource %s row id %r differs in %r: emitted %r, expected %r; %s' % (eff, t['name'], ri, diff, {k: g.get(k) for k in diff}, {k: w.get(k) for k in diff}, desc))

    def _probes(self, sc, sites, ctx):
        step = sc['step']
        seen = {}
        for s in sites:
            seen.setdefault((s[0], s[1]), []).append(s)
            if isinstance(s[3], bool) or (isinstance(s[3], int) and s[3] in (0, 1)) or (isinstance(s[3], dict) and 'f' in s[3]):
                ctx.probe('equal-values-of-different-python-types')
            if s[1] == 0:
                ctx.probe('site-in-first-row')
            if s[1] == len(sc['tables'][s[0]]['rows']) - 1:
                ctx.probe('site-in-last-row')
            if s[3] is None:
                ctx.probe('required-null')
            fs = sc['tables'][s[0]]['fields']
            names = [f['name'] for f in fs]
            later = fs[names.index(s[2]) + 1:]
            row = sc['tables'][s[0]]['rows'][s[1]]
            if any(f.get('checked') and isinstance(row[names.index(f['name'])], str) and f['type'] != 'string' for f in later):
                ctx.probe('failing-field-followed-by-lexical-field')
        if any(len(v) > 1 for v in seen.values()):
            ctx.probe('two-sites-in-one-row')
        if step['kind'] == 'set_type':
            if any('.*' in st['name'] for st in step['set_types']):
                ctx.probe('regex-multi-field')
            if len(sc['tables']) > 1:
                ctx.probe('resources-selected')
            if any(st.get('transform') for st in step['set_types']):
                ctx.probe('transform')
            if any(st.get('no_type') for st in step['set_types']):
                ctx.probe('set_type-without-type-argument')
        for t in sc['tables']:
            for f in t['fields']:
                o = f.get('options') or {}
                if 'format' in o:
                    ctx.probe('date-format')
                if o.get('constraints', {}).get('minimum') is not None:
                    ctx.probe('constraint-minimum')


PROP = C14()
