"""C16 - resource-level restructuring conserves rows.

duplicate saves its copy *while the original streams* and replays it afterwards - an interleaving through durable
state (KVFile); the cache-size and batch-size knobs decide whether the on-disk path is taken.  Oracle: a ~60-line
placement model over (name, rows) lists predicts every output resource; conservation is checked by provenance id.
"""
import copy
import json
import os
import random

from ..core.prop import Prop
from ..gen import pipelines as PL
from ..gen import steps as ST
from ..gen import tables as T
from ..seams import faults as F

KINDS = ['concatenate', 'duplicate', 'delete_resource', 'iterable', 'update_resource', 'sources', 'load_tuple', 'add_field', 'delete_fields', 'nested_edit']


def model(tables, steps):
    """placement model: -> list of [name, rows, field names or None (= not predicted)]"""
    import re
    # an iterable without rows has no inferable schema: its resource declares no fields
    st = [[t['name'], T.rows_of(t), [f['name'] for f in t['fields']] if t['rows'] else []] for t in tables]
    for sp in steps:
        s = sp['step']
        names = [x[0] for x in st]
        if s == 'concatenate':
            sel = [n for n in names if n in sp['resources']]
            first = names.index(sel[0])
            mapping = {}
            for tgt, srcs in sp['fields'].items():
                for x in srcs:
                    mapping[x] = tgt
                mapping[tgt] = tgt
            rows = []
            for n in sel:
                for row in st[names.index(n)][1]:
                    new = {k: None for k in sp['fields']}
                    for k, v in row.items():
                        if k in mapping and v is not None:
                            new[mapping[k]] = v
                    rows.append(new)
            st = [x for x in st[:first]] + [[sp['target'], rows, None]] + [x for x in st[first:] if x[0] not in sel]
        elif s == 'duplicate':
            i = names.index(sp['source'])
            cp = [sp['target'], copy.deepcopy(st[i][1]), list(st[i][2]) if st[i][2] is not None else None]
            if sp.get('to_end'):
                st = st + [cp]
            else:
                st = st[:i + 1] + [cp] + st[i + 1:]
        elif s == 'delete_resource':
            sel = select(sp['resources'], names)
            st = [x for x in st if x[0] not in sel]
        elif s == 'iterable':
            # an unnamed iterable is called res_<position>, or the next free res_<n> when that name is taken
            n = len(st) + 1
            while 'res_%d' % n in names:
                n += 1
            st = st + [['res_%d' % n, [{'_id': r[0], 'a': r[1]} for r in sp['rows']], ['_id', 'a'] if sp['rows'] else []]]
        elif s == 'sources':
            # sources() runs each of its data sources as an own little flow: their resources are named res_1.. inside it
            for j, rows in enumerate(sp['tables']):
                st = st + [['res_1', [{'_id': r[0], 'a': r[1]} for r in rows], ['_id', 'a'] if rows else []]]
        elif s == 'load_tuple':
            st = st + [[sp['name'], [{'_id': r[0], 'a': r[1]} for r in sp['rows']], ['_id', 'a']]]
        elif s == 'update_resource':
            sel = select(sp['resources'], names)
            if 'name' in sp['props']:
                st = [[sp['props']['name'] if x[0] in sel else x[0], x[1], x[2]] for x in st]
        elif s == 'add_field':
            sel = select(sp['resources'], names)
            for x in st:
                if x[0] in sel:
                    for row in x[1]:
                        row[sp['name']] = sp.get('default')
                    if x[2] is not None:
                        x[2] = x[2] + [sp['name']]
        elif s == 'nested_edit':
            # a user row function editing array / object cells in place: every row of every resource, once
            for x in st:
                for row in x[1]:
                    for v in row.values():
                        if isinstance(v, list):
                            v.append(sp['tag'])
                        elif isinstance(v, dict):
                            v[sp['tag']] = 1
        elif s == 'delete_fields':
            sel = select(sp['resources'], names)
            pats = [re.compile('^%s$' % (f if sp.get('regex', True) else re.escape(f))) for f in sp['fields']]
            for x in st:
                if x[0] in sel:
                    x[1] = [{k: v for k, v in row.items() if not any(p.match(k) for p in pats)} for row in x[1]]
                    if x[2] is not None:
                        x[2] = [k for k in x[2] if not any(p.match(k) for p in pats)]
    return st


def select(sel, names):
    if sel is None:
        return list(names)
    if isinstance(sel, int):
        return [names[sel]]
    if isinstance(sel, str):
        import re
        return [n for n in names if re.match('^' + sel + '$', n)]
    return [n for n in names if n in sel]


def _expand(payload, sub):
    rng = random.Random(payload['gseed'])
    sizes = [0, 1, 2, 3, 5, 12] + ([1001, 1200] if rng.random() < 0.15 else [])
    types = ('string', 'integer', 'boolean', 'number', 'date') + (('time',) if rng.random() < 0.3 else ())
    tables = PL.gen_tables(rng, ntab=rng.choice([1, 2, 3, 3, 4, 5]), sizes=sizes, big_p=0.05, types=types, nested_p=0.2)
    stats = {}
    pre = None
    if len(tables) >= 2 and rng.random() < 0.35:
        # resource names that are prefixes of one another: 'res_1' and 'res_1x'
        i = rng.randrange(1, len(tables))
        pre = {'tables': tables, 'steps': [{'step': 'update_resource', 'resources': i, 'props': {'name': 'res_1x', 'path': 'res_1x.csv'}}]}
    sc = PL.gen_pipeline(rng, tables, payload['nsteps'], exclude=[k for k in ST.GENS if k not in KINDS], stats=stats, sc=pre)
    # motif: duplicate a resource that has array / object cells, then edit nested values in place further down the chain
    nested = [t['name'] for t in tables if any(f['type'] in ('array', 'object') for f in t['fields']) and t['rows']]
    if nested and rng.random() < 0.4:
        try:
            names = [r['name'] for r in PL.describe(sc, {'calls': {}})['resources']]
            src = [n for n in nested if names.count(n) == 1]
            if src:
                extra = [{'step': 'duplicate', 'source': rng.choice(src), 'target': 'dupn', 'to_end': rng.random() < 0.5, 'batch_size': rng.choice([2, 50, 1000])},
                         {'step': 'nested_edit', 'tag': 'seenn'}]
                trial = dict(sc, steps=sc['steps'] + extra)
                PL.describe(trial, {'calls': {}})
                sc['steps'] = trial['steps']
        except Exception:  # noqa
            pass
    # concatenate with a real mapping now and then: rename one non-id field of the run onto a new target name
    for sp in sc['steps']:
        if sp['step'] == 'concatenate' and rng.random() < 0.4:
            cand = [k for k in sp['fields'] if k != '_id']
            if cand:
                k = rng.choice(cand)
                del sp['fields'][k]
                sp['fields']['m_' + k] = [k]
        elif sp['step'] == 'concatenate' and rng.random() < 0.5:
            # a target field that is itself a column of one selected resource and additionally collects a differently
            # named column of the same type from the others:  s0: ['s1']
            cand = sorted(k for k in sp['fields'] if k != '_id')
            pairs = [(a, b) for a in cand for b in cand if a != b and a[0] == b[0]]
            if pairs:
                a, b = rng.choice(pairs)
                del sp['fields'][b]
                sp['fields'][a] = [b]
    # sources() names the resources of each of its data sources res_1 (duplicate names are C02's business): placed last only
    sc['steps'] = [sp for sp in sc['steps'] if sp['step'] != 'sources']
    if rng.random() < 0.15:
        sc['steps'].append(ST.gen_sources(rng, ST.D({'resources': []}), ST.G()))
    # a concatenation that does not carry the provenance id: rows whose mapped cells are all null are legal data too
    for sp in sc['steps']:
        if sp['step'] == 'concatenate' and sp is [x for x in sc['steps'] if x['step'] != 'sources'][-1] and len(sp['fields']) > 1 and rng.random() < payload.get('noid_p', 0.12):
            sp['fields'].pop('_id', None)
    try:
        PL.describe(sc, {'calls': {}})
    except Exception:  # noqa
        for sp in sc['steps']:
            if sp['step'] == 'concatenate':
                sp['fields'] = {(k[2:] if k.startswith('m_') else k): [] for k in sp['fields']}
    return {'tables': sc['tables'], 'steps': sc['steps'], 'gen_stats': stats, 'source_kinds': [rng.choice(['list', 'gen']) for _ in tables]}


def _run(payload, sub):
    import dataflows as DF
    from ..core.ctx import jsonable
    sc = payload['sc']
    kv = F.install_kv(sub, size=payload.get('kvsize'))
    links = PL.build_links(sc, {'calls': {}})
    ds = DF.Flow(*links).datastream()
    rows = [list(r) for r in ds.res_iter]
    return {'names': [r.name for r in ds.dp.resources], 'rows': jsonable(rows), 'kv_ops': kv['n'],
            'fields': [[f['name'] for f in r.descriptor['schema']['fields']] for r in ds.dp.resources]}


class C16(Prop):
    ID = 'C16'
    TITLE = 'Resource-level restructuring conserves rows'
    LEVEL = 'exploration'
    TECHNIQUE = 'deterministic simulation with spill/batch knobs: real restructuring pipeline vs an executable placement model; conservation by provenance id; differential across KVFile cache sizes'
    SIMTIME_UNIT = 'pipeline executions (forked), rows, KVFile operations'
    RULE = ('one evaluation = 1-5 typed resources of 0-1200 rows (differing schemas, one-shot generator or list sources) through 1-5 restructuring steps (concatenate with identity or renaming '
            'mappings over a consecutive run, duplicate right-after / to-end with batch_size in {1,2,1000}, delete_resource with every selector form, mid-pipeline iterable, resource rename), '
            'executed under 2 KVFile cache sizes drawn from {1,2,7,10240}; every output resource is compared with the placement model and across cache sizes. '
            'Non-trivial = at least 2 steps or a duplicate; distinct = distinct (step kinds with options, resource sizes).')
    ASSUMPTIONS = ['the placement model (dfsim/props/c16.py:model) is the documented semantics: first-selected position for concatenate, right-after / end for duplicate, append for new sources',
                   'sqlite below KVFile is real and fault-free here']
    REAL_VS_STUB = {'real': ['dataflows concatenate / duplicate / delete_resource / iterable_loader / update_resource', 'kvfile + sqlite'], 'stub': ['KVFile twin only sets the cache-size knob and counts operations']}
    PROBES = ['duplicate-spilled-to-disk', 'concatenate-with-rename', 'delete-after-duplicate', 'empty-resource', 'big-resource', 'duplicate-to-end', 'iterable-appended', 'concat-then-delete', 'concatenate-without-id-field', 'sources-appended', 'load-tuple-appended', 'schema-edit-on-one-twin-after-duplicate', 'concatenate-target-is-also-a-source-column', 'prefix-related-resource-names', 'time-cells-in-iterable', 'nested-cells-edited-in-place-after-duplicate']
    TIERS = {'quick': dict(runs=800, wall=100, run_wall=300),
             'thorough': dict(runs=25000, wall=1700, run_wall=600)}
    SHRINK_FROZEN = ('fields_', 'gen_stats')

    def generate(self, rng, tier):
        return {'gseed': rng.randrange(2**62), 'nsteps': rng.choice([1, 2, 2, 3, 4, 5]), 'kv': rng.sample([1, 2, 7, 10240], 2)}

    def execute(self, sc, ctx):
        if 'steps' not in sc:
            kvs = sc.get('kv') or [2, 10240]
            r = ctx.subrun(_expand, sc)
            if r['status'] != 'ok':
                ctx.discard('generation failed: %s' % json.dumps(r.get('exc'))[:300])
            sc = r['value']
            sc['kv'] = kvs
            ctx.extra['expanded'] = sc
        steps = sc['steps']
        kinds = [sp['step'] for sp in steps]
        try:
            want = model(sc['tables'], steps)
        except Exception as e:  # noqa
            ctx.discard('model cannot evaluate the shrunk scenario: %s' % e)
        from ..core.ctx import jsonable
        want_names = [x[0] for x in want]
        want_rows = jsonable([x[1] for x in want])
        outs = []
        for kvsize in (sc.get('kv') or [2, 10240])[:2]:
            r = ctx.subrun(_run, {'sc': sc, 'kvsize': kvsize})
            outs.append((kvsize, r))
        desc = 'sizes=%r steps=%s' % ([len(t['rows']) for t in sc['tables']], json.dumps(steps)[:700])
        if any(len(t['rows']) == 0 for t in sc['tables']):
            ctx.probe('empty-resource')
        if any(sp['step'] == 'update_resource' and (sp.get('props') or {}).get('name') == 'res_1x' for sp in steps):
            ctx.probe('prefix-related-resource-names')
        if any(f['type'] == 'time' for t in sc['tables'] for f in t['fields']):
            ctx.probe('time-cells-in-iterable')
        if any(len(t['rows']) > 1000 for t in sc['tables']):
            ctx.probe('big-resource')
        for sp in steps:
            if sp['step'] == 'duplicate' and sp.get('to_end'):
                ctx.probe('duplicate-to-end')
            if sp['step'] == 'concatenate' and any(v for v in sp['fields'].values()):
                ctx.probe('concatenate-with-rename')
            if sp['step'] == 'concatenate' and any(v and not k.startswith('m_') for k, v in sp['fields'].items()):
                ctx.probe('concatenate-target-is-also-a-source-column')
            if sp['step'] == 'iterable':
                ctx.probe('iterable-appended')
            if sp['step'] == 'sources':
                ctx.probe('sources-appended')
            if sp['step'] == 'load_tuple':
                ctx.probe('load-tuple-appended')
            if sp['step'] == 'concatenate' and '_id' not in sp['fields']:
                ctx.probe('concatenate-without-id-field')
        if 'duplicate' in kinds and any(k in ('add_field', 'delete_fields') for k in kinds[kinds.index('duplicate'):]):
            ctx.probe('schema-edit-on-one-twin-after-duplicate')
        if 'duplicate' in kinds and 'nested_edit' in kinds[kinds.index('duplicate'):]:
            ctx.probe('nested-cells-edited-in-place-after-duplicate')
        if 'duplicate' in kinds and 'delete_resource' in kinds[kinds.index('duplicate'):]:
            ctx.probe('delete-after-duplicate')
        if 'concatenate' in kinds and 'delete_resource' in kinds[kinds.index('concatenate'):]:
            ctx.probe('concat-then-delete')
        for kvsize, r in outs:
            if r['status'] != 'ok':
                cause = r['exc'].get('cause') or r['exc']
                allnull = cause['type'] == 'builtins.AssertionError' and 'Got an empty row after concatenation' in cause['str']
                ctx.violation('raised', cause['type'] + (':empty-row-after-concatenation' if allnull else ''), 'restructuring pipeline raised %s (KVFile cache size %r); %s' % (
                    json.dumps(r['exc'])[:400], kvsize, desc), kvsize=kvsize, empty_row_assertion=allnull)
            v = r['value']
            if v['kv_ops'] and kvsize < 100 and max(len(t['rows']) for t in sc['tables']) > kvsize:
                ctx.probe('duplicate-spilled-to-disk')
            if v['names'] != want_names:
                ctx.violation('placement', 'names', 'output resources %r, placement model predicts %r; %s' % (v['names'], want_names, desc), kvsize=kvsize)
            for nm, gf, wf in zip(v['names'], v['fields'], [x[2] for x in want]):
                if wf is not None and gf != wf:
                    ctx.violation('passthrough-changed', 'descriptor', 'resource %r declares fields %r, expected %r (KVFile cache size %r); %s' % (nm, gf, wf, kvsize, desc), kvsize=kvsize)
            for nm, got, exp in zip(v['names'], v['rows'], want_rows):
                gi = [x.get('_id') for x in got]
                ei = [x.get('_id') for x in exp]
                if gi != ei:
                    lost = [i for i in ei if i not in gi]
                    inv = [i for i in gi if i not in ei]
                    clause = 'conservation:lost' if lost else 'conservation:invented' if inv else 'placement'
                    ctx.violation(clause, 'ids', 'resource %r carries provenance ids %r, expected %r (lost %r, invented %r; KVFile cache size %r); %s' % (
                        nm, gi[:30], ei[:30], lost[:10], inv[:10], kvsize, desc), kvsize=kvsize)
                if got != exp:
                    k = next(i for i, (a, b) in enumerate(zip(got, exp)) if a != b)
                    ctx.violation('passthrough-changed', 'content', 'resource %r row %d is %s, expected %s (KVFile cache size %r); %s' % (
                        nm, k, json.dumps(got[k])[:300], json.dumps(exp[k])[:300], kvsize, desc), kvsize=kvsize)
        if outs[0][1]['value']['rows'] != outs[1][1]['value']['rows']:
            ctx.violation('knob-dependence', 'kvsize', 'results differ between KVFile cache sizes %r and %r; %s' % (outs[0][0], outs[1][0], desc))
        if len(steps) >= 2 or 'duplicate' in kinds:
            ctx.nt([(sp['step'], sp.get('to_end'), sp.get('batch_size'), json.dumps(sp.get('resources'))) for sp in steps], [len(t['rows']) for t in sc['tables']])
        ctx.sample = {'sizes': [len(t['rows']) for t in sc['tables']], 'steps': steps, 'kv': sc.get('kv')}

    def focus(self, sc, rec):
        ex = rec.get('extra') or {}
        if 'steps' not in sc and ex.get('expanded'):
            return ex['expanded']
        return None


PROP = C16()
