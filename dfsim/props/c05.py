"""C05 - observers are transparent and capture the complete stream at their position.

Scenario: prefix P (seeded well-typed pipeline), observer O inserted after it, suffix S biased towards steps
that discard rows / columns / whole resources.  Three executions of real code, each in its own process:
   A = P            -> the full stream at O's position (reference for completeness)
   B = P + S        -> what downstream sees without the observer (reference for transparency)
   C = P + O + S    -> what downstream sees with it, plus what the observer persisted / reported
"""
import csv
import io
import json
import os
import random
import sys
import zipfile

from ..core.prop import Prop
from ..gen import pipelines as PL
from ..gen import steps as ST

OBSERVERS = ['printer', 'dump_to_path', 'dump_to_path', 'dump_to_zip', 'stream', 'checkpoint', 'finalizer', 'update_stats', 'validate']
DISCARD_TAGS = {'discard-rows', 'discard-columns', 'discard-resources', 'restructure'}
OBS_KINDS = ('printer', 'dump_to_path', 'dump_to_zip', 'stream', 'checkpoint', 'finalizer', 'update_stats', 'validate')


def _expand(payload, sub):
    rng = random.Random(payload['gseed'])
    tables = PL.gen_tables(rng, big_p=0.05)
    stats = {}
    g = ST.G()
    sc = PL.gen_pipeline(rng, tables, payload['np'], exclude=OBS_KINDS + ('user',), stats=stats, g=g,
                         source_kinds=[rng.choice(['list', 'gen']) for _ in tables])
    npre = len(sc['steps'])
    # suffix: first a few steps biased to discarding, then anything
    PL.gen_pipeline(rng, None, payload['ns'], tags=(DISCARD_TAGS | {'user'}) if rng.random() < 0.7 else None, exclude=OBS_KINDS, stats=stats, sc=sc, g=g)
    if rng.random() < 0.12:
        # motif: an inner join whose source turns out empty at run time (filtered away just before): the join has nothing to
        # match, and still has to pull the target through everything upstream of it
        try:
            dmid = ST.D(PL.describe({'tables': sc['tables'], 'steps': sc['steps'][:npre], 'source_kinds': sc.get('source_kinds')}, {'calls': {}}))
            j = ST.gen_join(rng, dmid, g)
            if j and ('_id', 'integer') in dmid.get(j['source'])['fields']:
                j['mode'] = 'inner'
                extra = [{'step': 'filter_rows', 'cond': 'none', 'resources': j['source']}, j]
                trial = {'tables': sc['tables'], 'steps': sc['steps'][:npre] + extra + sc['steps'][npre:], 'source_kinds': sc.get('source_kinds')}
                try:
                    PL.describe(trial, {'calls': {}})
                    sc['steps'] = trial['steps']
                except Exception:  # noqa  - the rest of the suffix no longer fits: keep the motif alone
                    trial['steps'] = sc['steps'][:npre] + extra
                    PL.describe(trial, {'calls': {}})
                    sc['steps'] = trial['steps']
                stats['motif:inner-join-on-emptied-source'] = 1
        except Exception:  # noqa
            pass
    if rng.random() < payload.get('truncate_p', 0.05):
        # known finding C05-consumer-stops-early: a downstream user step that stops pulling a resource early
        sc['steps'].insert(rng.randrange(npre, len(sc['steps']) + 1), ST.gen_truncate(rng, None, g))
    dpre = ST.D(PL.describe({'tables': sc['tables'], 'steps': sc['steps'][:npre], 'source_kinds': sc.get('source_kinds')}, {'calls': {}}))
    if payload['observer'] == 'printer':
        sel, names = ST.selector(rng, dpre) if rng.random() < 0.6 else (None, dpre.names())
        if isinstance(sel, int):
            sel = [names[0]]       # printer(resources=<int>) raises KeyError on the current tree: selector forms are C10's business (not applicable here)
        obs = {'step': 'printer', 'num_rows': rng.choice([1, 2, 10]), 'resources': sel}
    else:
        obs = ST.GENS[payload['observer']](rng, dpre, g)
        if obs['step'] in ('dump_to_path', 'dump_to_zip') and rng.random() < 0.3:
            # data files named after their content: two resources holding the same bytes (a duplicate, two empty resources) share a directory
            obs['options'] = {'add_filehash_to_path': True}
            names = dpre.names()
            if len(set(names)) == len(names) and names and rng.random() < 0.6:
                dup = {'step': 'duplicate', 'source': rng.choice(names), 'target': g.fresh('twin'), 'to_end': rng.random() < 0.5, 'batch_size': 1000}
                trial = {'tables': sc['tables'], 'steps': sc['steps'][:npre] + [dup] + sc['steps'][npre:], 'source_kinds': sc.get('source_kinds')}
                try:
                    PL.describe(trial, {'calls': {}})
                    sc['steps'] = trial['steps']
                    npre += 1
                    stats['motif:filehash-with-identical-resources'] = 1
                except Exception:  # noqa
                    pass
    # now and then a second file dumper further downstream, in the *other* format
    if obs['step'] in ('dump_to_path', 'dump_to_zip') and rng.random() < 0.35:
        other = {'csv': 'json', 'json': 'csv'}[obs.get('format', 'csv')]
        second = {'step': rng.choice(['dump_to_path', 'dump_to_zip']), 'format': other}
        second['out'] = g.fresh('out2') if second['step'] == 'dump_to_path' else g.fresh('zip2') + '.zip'
        sc['steps'].insert(rng.randrange(npre, len(sc['steps']) + 1), second)
    return {'tables': sc['tables'], 'source_kinds': sc.get('source_kinds'), 'prefix': sc['steps'][:npre], 'suffix': sc['steps'][npre:], 'observer': obs, 'gen_stats': stats,
            'fail_at': rng.choice([0, 1, 3]) if obs['step'] == 'finalizer' and rng.random() < 0.6 else None}


def _run(payload, sub):
    import dataflows as DF
    from ..core.ctx import jsonable
    sc = payload['sc']
    env = {'calls': {}}
    links = PL.source_links(sc['tables'], sc.get('source_kinds'))
    for sp in sc['prefix']:
        links.extend(ST.build(sp, env))
    rec = {}
    if payload['with_observer']:
        o = sc['observer']
        if o['step'] == 'finalizer':
            seen = {'n': 0}
            fired = []

            def count(rows):
                for row in rows:
                    seen['n'] += 1
                    yield row
            links.append(count)
            links.append(DF.finalizer(lambda: fired.append(seen['n'])))
            rec['finalizer'] = fired
        elif o['step'] == 'printer':
            pm = sys.modules['dataflows.processors.printer']
            tabs = []
            real_tab = pm.tabulate

            def tab(rows, headers=(), **kw):
                tabs.append([list(r) for r in rows])
                return real_tab(rows, headers=headers, **kw)
            pm.tabulate = tab
            heads = []
            links.append(DF.printer(num_rows=o.get('num_rows', 10), resources=o.get('resources'),
                                    header_print=lambda name, kw: heads.append(name), table_print=lambda data, kw: None))
            rec['printer'] = {'heads': heads, 'tabs': tabs, 'headers': None}
        else:
            links.extend(ST.build(o, env))
    if payload['with_suffix']:
        for sp in sc['suffix']:
            links.extend(ST.build(sp, env))
    if payload.get('fail_at') is not None and payload['with_observer']:
        k_fail = payload['fail_at']
        n_seen = {'n': 0}

        def tripwire(row):
            if n_seen['n'] == k_fail:
                raise RuntimeError('dfsim: downstream step fails at row %d' % k_fail)
            n_seen['n'] += 1
        links.append(tripwire)
        try:
            DF.Flow(*links).process()
            return {'failed': False, 'rec': rec}
        except Exception:  # noqa
            import gc
            gc.collect()
            return {'failed': True, 'rec': rec}
    if payload.get('raw'):
        # the stream exactly as it is at this position (no final validation cast)
        ds = DF.Flow(*links).datastream()
        rows = [list(r) for r in ds.res_iter]
        from .c01 import _cast
        def cell(v):
            v = str(v)
            return v[:100] + ' ...' if len(v) > 100 else v
        return {'rows': jsonable(rows), 'dp': jsonable(ds.dp.descriptor), 'stats': {}, 'rec': rec,
                'rows_str': [[{k: cell(v) for k, v in row.items()} for row in res] for res in rows],
                'cast_fixed': _cast(ds.dp.descriptor, rows) == jsonable(rows)}
    rows, dp, stats = DF.Flow(*links).results()
    return {'rows': jsonable(rows), 'dp': jsonable(dp.descriptor), 'stats': jsonable(stats), 'rec': rec}


def schema_view(dp):
    out = []
    for r in dp.get('resources', []):
        sch = r.get('schema', {})
        out.append({'name': r['name'], 'fields': [(f['name'], f.get('type')) for f in sch.get('fields', [])], 'pk': sch.get('primaryKey')})
    return out


def read_dump(dirpath, zpath=None):
    """Independent decode of a dumped package: -> (resource names, per-resource list of _id cell text or row count)"""
    if zpath:
        z = zipfile.ZipFile(zpath)
        rd = lambda p: z.read(p)      # noqa
    else:
        rd = lambda p: open(os.path.join(dirpath, p), 'rb').read()   # noqa
    desc = json.loads(rd('datapackage.json').decode('utf-8'))
    names, rows = [], []
    for r in desc['resources']:
        names.append(r['name'])
        data = rd(r['path']).decode('utf-8')
        if r.get('format') == 'json':
            lst = json.loads(data)
            rows.append([x.get('_id') for x in lst])
        else:
            rdr = list(csv.reader(io.StringIO(data, newline='')))
            hdr = rdr[0] if rdr else []
            body = rdr[1:]
            if '_id' in hdr:
                i = hdr.index('_id')
                rows.append([int(x[i]) if x[i] != '' else None for x in body])
            else:
                rows.append([None] * len(body))
    return names, rows


class C05(Prop):
    ID = 'C05'
    TITLE = 'Observers are transparent and capture the complete stream at their position'
    LEVEL = 'exploration'
    TECHNIQUE = 'deterministic simulation of pull schedules with downstream discard: differential P+S vs P+O+S and completeness of what the observer persisted vs the materialised output of P'
    SIMTIME_UNIT = 'pipeline executions (forked) and rows'
    RULE = ('one evaluation = seeded prefix pipeline P (0-4 typed steps over 1-3 sources incl. one-shot generators), one observer O in {printer, dump_to_path csv/json, dump_to_zip, '
            'stream(file), first-run checkpoint, finalizer, update_stats, validate} and a suffix S (0-4 steps, 70% drawn from discarding / restructuring steps: delete_resource, '
            'concatenate, filter_rows, join, deduplicate, select/delete_fields, duplicate); three executions P, P+S, P+O+S. Non-trivial = the suffix discards at least one row, column or resource; '
            'distinct = distinct (observer kind, suffix step kinds, prefix step kinds).')
    ASSUMPTIONS = ['schemas are compared as (field names, types, order, primary key): serialisation hints that file dumpers add by design (format, decimalChar, ...) are not part of the statement',
                   'dumped csv/json files are decoded with the stdlib only and compared by resource list, row count and provenance-id sequence (typed round-trip is C03)']
    REAL_VS_STUB = {'real': ['all dataflows code'], 'stub': ['printer: header_print/table_print callbacks and a recording wrapper around the module-global tabulate']}
    PROBES = ['suffix-deletes-resource', 'suffix-filters-rows', 'suffix-joins', 'suffix-concatenates', 'observer-first', 'observer-last', 'empty-resource-at-observer', 'printer-with-selection', 'second-dumper-downstream', 'suffix-stops-pulling-early', 'run-fails-downstream-of-finalizer', 'suffix-inner-join-on-emptied-source', 'filehash-dump-with-identical-resources'] + ['obs:' + o for o in OBS_KINDS]
    TIERS = {'quick': dict(runs=900, wall=100, run_wall=300),
             'thorough': dict(runs=25000, wall=1700, run_wall=600)}
    SHRINK_FROZEN = ('fields', 'gen_stats')

    def generate(self, rng, tier):
        return {'gseed': rng.randrange(2**62), 'np': rng.choice([0, 1, 2, 3, 4]), 'ns': rng.choice([0, 1, 1, 2, 3, 4]), 'observer': rng.choice(OBSERVERS)}

    def execute(self, sc, ctx):
        if 'prefix' not in sc:
            r = ctx.subrun(_expand, sc)
            if r['status'] != 'ok':
                ctx.discard('generation failed: %s' % json.dumps(r.get('exc'))[:300])
            sc = r['value']
            ctx.extra['expanded'] = sc
        obs = sc['observer']
        outs = {}
        for name, wo, ws in (('A', False, False), ('B', False, True), ('C', True, True)):
            d = os.path.join(ctx.scratch, name)
            os.makedirs(d, exist_ok=True)
            os.chdir(d)
            outs[name] = ctx.subrun(_run, {'sc': sc, 'with_observer': wo, 'with_suffix': ws, 'raw': name == 'A'})
        A, B, C = outs['A'], outs['B'], outs['C']
        if A['status'] != 'ok' or B['status'] != 'ok':
            ctx.discard('pipeline without the observer raises (ill-typed): %s' % json.dumps((A if A['status'] != 'ok' else B).get('exc'))[:300])
        A, B = A['value'], B['value']
        if obs['step'] == 'validate' and not A.get('cast_fixed'):
            # 'validate on valid data': data that Table Schema's cast leaves as it is.  A lexical missing value ('' in a string
            # field) or a float in a number field is legitimately changed by validate, so it is outside the observer clause.
            ctx.discard('validate observer on data that is not a fixed point of the schema cast')
        ctx.probe('obs:' + obs['step'])
        for sp in sc['suffix']:
            k = {'delete_resource': 'suffix-deletes-resource', 'filter_rows': 'suffix-filters-rows', 'join': 'suffix-joins', 'concatenate': 'suffix-concatenates'}.get(sp['step'])
            if k:
                ctx.probe(k)
        if (sc.get('gen_stats') or {}).get('motif:filehash-with-identical-resources'):
            ctx.probe('filehash-dump-with-identical-resources')
        if (sc.get('gen_stats') or {}).get('motif:inner-join-on-emptied-source'):
            ctx.probe('suffix-inner-join-on-emptied-source')
        if any(sp['step'] in ('dump_to_path', 'dump_to_zip') for sp in sc['suffix']):
            ctx.probe('second-dumper-downstream')
        if any(sp['step'] == 'truncate' for sp in sc['suffix']):
            ctx.probe('suffix-stops-pulling-early')
        if not sc['prefix']:
            ctx.probe('observer-first')
        if not sc['suffix']:
            ctx.probe('observer-last')
        if any(len(r) == 0 for r in A['rows']):
            ctx.probe('empty-resource-at-observer')
        desc = 'prefix=%s observer=%s suffix=%s' % (json.dumps(sc['prefix'])[:400], json.dumps(obs), json.dumps(sc['suffix'])[:400])
        if C['status'] != 'ok':
            ctx.violation('transparency:raised', obs['step'], 'inserting the observer makes the run raise %s; %s' % (json.dumps(C.get('exc'))[:400], desc), observer=obs['step'])
        C = C['value']
        # --- oracle 1: transparency
        if schema_view(C['dp']) != schema_view(B['dp']):
            ctx.violation('transparency:schema', obs['step'], 'schemas seen downstream differ with the observer: %s vs %s; %s' % (
                json.dumps(schema_view(C['dp']))[:400], json.dumps(schema_view(B['dp']))[:400], desc), observer=obs['step'])
        pending = []
        as_validate = False
        if C['rows'] != B['rows'] and obs['step'] in ('dump_to_path', 'dump_to_zip') and not A.get('cast_fixed'):
            # does the dumper behave exactly like a validate() step at its position?  (it runs its own schema validator
            # over the rows and passes the cast rows on)
            d2 = os.path.join(ctx.scratch, 'Bv')
            os.makedirs(d2, exist_ok=True)
            os.chdir(d2)
            sc_v = dict(sc, observer={'step': 'validate'})
            Bv = ctx.subrun(_run, {'sc': sc_v, 'with_observer': True, 'with_suffix': True})
            as_validate = Bv['status'] == 'ok' and Bv['value']['rows'] == C['rows'] and schema_view(Bv['value']['dp']) == schema_view(C['dp'])
        if as_validate:
            # lowest priority (known finding C05-dumper-casts-values)
            from .c01 import first_diff
            pending.append(('transparency:rows', 'dumper-casts-values', 'a file dumper hands the rows on after casting them to the declared types, exactly as a validate() step at its position would: '
                            'downstream sees %s; %s' % (first_diff(C['rows'], B['rows']), desc), {'observer': obs['step'], 'equals_validate': True}))
        elif C['rows'] != B['rows']:
            from .c01 import first_diff
            ctx.violation('transparency:rows', obs['step'], 'rows seen downstream differ with the observer at %s; %s' % (first_diff(C['rows'], B['rows']), desc), observer=obs['step'])
        # --- oracle 2: completeness, against the materialised output of P
        want_names = [r['name'] for r in A['dp']['resources']]
        want_ids = [[row.get('_id') for row in rows] for rows in A['rows']]
        cdir = os.path.join(ctx.scratch, 'C')
        k = obs['step']

        def complete(names, ids, what):
            if names != want_names:
                ctx.violation('completeness:resources', k, '%s holds resources %r, the stream at its position has %r; %s' % (what, names, want_names, desc), observer=k)
            for nm, got, want in zip(names, ids, want_ids):
                if len(got) != len(want):
                    ctx.violation('completeness:rows', k, '%s holds %d rows of %r, the stream at its position has %d; %s' % (what, len(got), nm, len(want), desc), observer=k)
                if got != want and all(x is not None for x in got):
                    ctx.violation('completeness:rows', k, '%s holds rows %r of %r, the stream at its position has %r; %s' % (what, got[:20], nm, want[:20], desc), observer=k)
        if k == 'dump_to_path':
            p = os.path.join(cdir, obs['out'])
            if not os.path.exists(os.path.join(p, 'datapackage.json')):
                ctx.violation('completeness:resources', k, 'dump_to_path wrote no datapackage.json; %s' % desc, observer=k)
            try:
                names, ids = read_dump(p)
            except Exception as e:  # noqa
                ctx.violation('completeness:resources', k, 'the package written by dump_to_path cannot be decoded in the format it declares (%s: %s); %s' % (type(e).__name__, e, desc), observer=k)
            complete(names, ids, 'the dumped package')
        elif k == 'dump_to_zip':
            p = os.path.join(cdir, obs['out'])
            try:
                names, ids = read_dump(None, p)
            except Exception as e:  # noqa
                ctx.violation('completeness:resources', k, 'the zip written by dump_to_zip cannot be read (%s: %s); %s' % (type(e).__name__, e, desc), observer=k)
            complete(names, ids, 'the dumped zip')
        elif k in ('stream', 'checkpoint'):
            from . import cpcommon
            p = os.path.join(cdir, obs['out']) if k == 'stream' else os.path.join(cdir, '.checkpoints', obs['name'], 'stream.ndjson')
            if not os.path.exists(p):
                ctx.violation('completeness:resources', k, '%s left no file under its final name; %s' % (k, desc), observer=k)
            d, rows, ok = cpcommon.parse_stream_file(p)
            if not ok:
                ctx.violation('completeness:rows', k, 'the %s file is not a complete stream; %s' % (k, desc), observer=k)
            names = [r['name'] for r in d['resources']]
            complete(names, [[r.get('_id') for r in rr] for rr in rows], 'the %s file' % k)
            from ..core.ctx import jsonable
            if jsonable(rows) != A['rows']:
                from .c01 import first_diff
                ctx.violation('completeness:rows', k, 'rows in the %s file differ from the stream at its position at %s; %s' % (k, first_diff(jsonable(rows), A['rows']), desc), observer=k, content=True)
        elif k == 'printer':
            pr = C['rec']['printer']
            from .c16 import select
            sel_names = select(obs.get('resources'), want_names) if len(set(want_names)) == len(want_names) else want_names
            idx = [i for i, nm in enumerate(want_names) if nm in sel_names]
            want_names = [want_names[i] for i in idx]
            want_ids = [want_ids[i] for i in idx]
            if obs.get('resources') is not None:
                ctx.probe('printer-with-selection')
            if pr['heads'] != want_names:
                ctx.violation('completeness:resources', k, 'printer announced %r, the stream at its position has %r; %s' % (pr['heads'], want_names, desc), observer=k)
            a_rows = {nm: rows for nm, rows in zip([r['name'] for r in A['dp']['resources']], A['rows_str'])}
            a_fields = {r['name']: [f['name'] for f in r['schema']['fields']] for r in A['dp']['resources']}
            for nm, tab, want in zip(want_names, pr['tabs'], want_ids):
                last = [x[0] for x in tab if x and isinstance(x[0], int)]
                lastidx = last[-1] if last else 0
                if lastidx != len(want):
                    ctx.violation('completeness:rows', k, 'printer reported rows up to #%d of %r, the stream at its position has %d; %s' % (lastidx, nm, len(want), desc), observer=k)
                # what it reports about a row is that row as it was at the printer's position
                for prow in tab:
                    if not prow or not isinstance(prow[0], int):
                        continue
                    src = a_rows[nm][prow[0] - 1]
                    exp = [src.get(f) for f in a_fields[nm]]
                    if list(prow[1:]) != exp:
                        ctx.violation('completeness:rows', 'printer-content', 'printer shows row #%d of %r as %r, at its position that row was %r; %s' % (prow[0], nm, prow[1:], exp, desc), observer=k)
            if len(pr['tabs']) != len(want_names):
                ctx.violation('completeness:resources', k, 'printer printed %d tables for %d resources; %s' % (len(pr['tabs']), len(want_names), desc), observer=k)
        elif k == 'finalizer':
            fired = C['rec']['finalizer']
            total = sum(len(x) for x in want_ids)
            if len(fired) != 1:
                ctx.violation('finalizer:count', 'count', 'finalizer fired %d times; %s' % (len(fired), desc), observer=k)
            if fired[0] != total:
                ctx.violation('finalizer:early', 'early', 'finalizer fired after %d of %d rows had passed it; %s' % (fired[0], total, desc), observer=k)
        elif k == 'update_stats':
            for key, val in obs['stats'].items():
                if C['stats'].get(key) != val:
                    ctx.violation('completeness:stats', k, 'update_stats value %r missing from the returned stats; %s' % (key, desc), observer=k)
        discarding = [sp['step'] for sp in sc['suffix'] if ST.TAGS.get(sp['step'], set()) & {'discard-rows', 'discard-columns', 'discard-resources'}]
        if discarding:
            ctx.nt(k, [sp['step'] for sp in sc['suffix']], [sp['step'] for sp in sc['prefix']])
        total_rows = sum(len(x) for x in want_ids)
        if k == 'finalizer' and sc.get('fail_at') is not None and not any(sp['step'] == 'truncate' for sp in sc['suffix']):
            # a run that fails downstream of the finalizer, before the last row has passed it: it must not fire
            dF = os.path.join(ctx.scratch, 'F')
            os.makedirs(dF, exist_ok=True)
            os.chdir(dF)
            Fr = ctx.subrun(_run, {'sc': sc, 'with_observer': True, 'with_suffix': True, 'fail_at': sc['fail_at']})
            if Fr['status'] == 'ok' and Fr['value'].get('failed'):
                ctx.probe('run-fails-downstream-of-finalizer')
                fired = Fr['value']['rec'].get('finalizer') or []
                if fired and fired[0] < total_rows:
                    ctx.violation('finalizer:early', 'on-failure', 'the run failed downstream after %d rows; the finalizer fired although only %d of %d rows had passed it; %s' % (
                        sc['fail_at'], fired[0], total_rows, desc), observer=k)
        ctx.sample = {'sources': [len(t['rows']) for t in sc['tables']], 'prefix': sc['prefix'], 'observer': obs, 'suffix': sc['suffix']}
        if pending:
            c, k_, m, d = pending[0]
            ctx.violation(c, k_, m, **d)

    def focus(self, sc, rec):
        ex = rec.get('extra') or {}
        if 'prefix' not in sc and ex.get('expanded'):
            return ex['expanded']
        return None


PROP = C05()


def numeric_norm(x):
    """floats and Decimals of equal value compare equal"""
    import decimal
    if isinstance(x, dict):
        if set(x) == {'~f'}:
            return {'~num': str(decimal.Decimal(repr(float(x['~f']))).normalize())}
        if set(x) == {'~d'}:
            return {'~num': str(decimal.Decimal(x['~d']).normalize())}
        return {k: numeric_norm(v) for k, v in x.items()}
    if isinstance(x, list):
        return [numeric_norm(v) for v in x]
    return x
