"""Checkpoint workloads shared by C07 and C08.

flow spec (JSON):
  {"tables": [table...],            sources: one iterable per table (names res_1..)
   "links": ["cp:a", "mid", "cp:b", "tail"]    order of links after the sources
  }
 * "cp:<name>"  -> checkpoint(<name>)           (checkpoint_path = <cwd>/.checkpoints, the default)
 * "mid"/"tail" -> counting row steps (pure pass-through, adds nothing) whose
                   execution is observable through counters
Every source is a counting generator so that 'computed from the sources' is observable.
"""
import json
import os

from ..gen import tables as T


def build_and_run(spec, sub, faults=None, same_object_runs=1, api='results'):
    """Runs in a sub-run child.  Returns a JSON-able dict with results and counters."""
    from dataflows import Flow, checkpoint
    if spec.get('sample_size'):
        # knob: the schema-inference sample; with a small one a source failure lands in the row phase, while the checkpoint is being written
        import sys
        sys.modules['dataflows.helpers.iterable_loader'].iterable_storage.SAMPLE_SIZE = spec['sample_size']
    counters = {'src': [0] * len(spec['tables']), 'steps': {}}
    faults = faults or {}

    class Boom(Exception):
        pass

    def source(ti, table):
        rows = T.rows_of(table)
        sf = faults.get('source')

        def gen():
            for ri, row in enumerate(rows):
                if sf and sf['res'] == ti and sf['row'] == ri:
                    sub.fault('source-raise')
                    sub.log('fault', 'source-raise', ti, ri)
                    e = Boom('source %d row %d' % (ti, ri))
                    e._dfsim_marker = 'source-raise'
                    raise e
                counters['src'][ti] += 1
                sub.count('rows_pulled')
                yield dict(row)
            if sf and sf['res'] == ti and sf['row'] == len(rows):
                sub.fault('source-raise')
                sub.log('fault', 'source-raise', ti, 'exhaustion')
                e = Boom('source %d exhaustion' % ti)
                e._dfsim_marker = 'source-raise'
                raise e
        return gen

    def counting_step(name):
        counters['steps'][name] = 0
        stf = faults.get('step')
        state = {'res': -1}

        def step(rows):
            state['res'] += 1
            ri = -1
            for ri, row in enumerate(rows):
                if stf and stf['at'] == name and stf['res'] == state['res'] and stf['row'] == ri:
                    sub.fault('step-raise')
                    sub.log('fault', 'step-raise', name, state['res'], ri)
                    e = Boom('step %s res %d row %d' % (name, state['res'], ri))
                    e._dfsim_marker = 'step-raise'
                    raise e
                counters['steps'][name] += 1
                yield row
            if stf and stf['at'] == name and stf['res'] == state['res'] and stf['row'] == 'end':
                sub.fault('step-raise')
                sub.log('fault', 'step-raise', name, state['res'], 'end')
                e = Boom('step %s res %d exhaustion' % (name, state['res']))
                e._dfsim_marker = 'step-raise'
                raise e
        return step

    def counting_row_function(name):
        """a plain row function (names starting with 'r'): it cannot see resource boundaries, faults are addressed by
        the global row index; it may fail with StopIteration (e.g. next() on an exhausted lookup iterator), which no
        generator frame of the harness turns into RuntimeError"""
        counters['steps'][name] = 0
        stf = faults.get('step')
        sizes = [len(t['rows']) for t in spec['tables']]
        target = None
        if stf and stf['at'] == name and sum(sizes):
            r_ = min(stf['res'], len(sizes) - 1)
            row = stf['row'] if isinstance(stf['row'], int) else max(0, sizes[r_] - 1)
            target = min(sum(sizes[:r_]) + min(row, max(0, sizes[r_] - 1)), sum(sizes) - 1)
        state = {'n': 0}

        def f(row):
            idx = state['n']
            state['n'] += 1
            if target is not None and idx == target:
                sub.fault('step-raise')
                sub.log('fault', 'step-raise', name, 'global-row', idx, stf.get('exc', 'Boom'))
                e = StopIteration('row function %s row %d' % (name, idx)) if stf.get('exc') == 'StopIteration' else Boom('row function %s row %d' % (name, idx))
                e._dfsim_marker = 'step-raise'
                raise e
            counters['steps'][name] += 1
        return f

    def make_flow(reiterable=False):
        links = []
        for ti, table in enumerate(spec['tables']):
            g = source(ti, table)
            links.append(_Reiter(g) if reiterable else g())
        for ln in spec['links']:
            if ln.startswith('cp:'):
                links.append(checkpoint(ln[3:]))
            elif ln.startswith('r'):
                links.append(counting_row_function(ln))
            else:
                links.append(counting_step(ln))
        return Flow(*links)

    outs = []
    flow = make_flow(reiterable=same_object_runs > 1)
    for n in range(same_object_runs):
        counters['src'] = [0] * len(spec['tables'])
        for k in counters['steps']:
            counters['steps'][k] = 0
        if api == 'results':
            results, dp, stats = flow.results()
        else:
            raise ValueError(api)
        from ..core.ctx import jsonable
        outs.append({'rows': jsonable(results), 'dp': jsonable(dp.descriptor),
                     'src': list(counters['src']), 'steps': dict(counters['steps'])})
    return outs[-1] if same_object_runs == 1 else outs


class _Reiter:
    """A re-iterable source (like a list) that still counts pulls."""

    def __init__(self, g):
        self.g = g

    def __iter__(self):
        return self.g()


def cp_names(spec):
    return [ln[3:] for ln in spec['links'] if ln.startswith('cp:')]


def cp_file(scratch_dir, name):
    """Final name of a checkpoint file, asked of the real code."""
    from dataflows import checkpoint
    cwd = os.getcwd()
    try:
        os.chdir(scratch_dir)
        return os.path.abspath(checkpoint(name).filename)
    finally:
        os.chdir(cwd)


def parse_stream_file(path):
    """Independent parse of a stream file: descriptor + list of row lists.  Returns
    (descriptor, [rows...], complete) where complete is False when the file ends
    before every resource of the descriptor has been terminated by a blank line."""
    from dataflows.helpers.extended_json import ejson
    with open(path, 'rb') as f:
        data = f.read().decode('utf-8', errors='replace')
    lines = data.split('\n')
    if not lines or not lines[0].strip():
        return None, [], False
    try:
        desc = ejson.loads(lines[0])
    except ValueError:
        return None, [], False
    res = []
    cur = []
    complete_res = 0
    ok = True
    # every line must be newline-terminated: the last element of split is the unterminated remainder
    body, tail = lines[1:-1], lines[-1]
    for ln in body:
        if ln.strip() == '':
            res.append(cur)
            cur = []
            complete_res += 1
        else:
            try:
                cur.append(ejson.loads(ln))
            except ValueError:
                ok = False
                break
    nres = len(desc.get('resources', [])) if isinstance(desc, dict) else 0
    complete = ok and tail == '' and cur == [] and complete_res >= nres
    return desc, res[:nres], complete
