"""C12 - sort_rows emits a stable, correctly ordered permutation.

Reference: sorted(rows, key=(reference key, input index)).  The reference key never copies the implementation's
bit tricks: numeric key fields are replaced by a fixed-width *rank* token (their rank among the distinct values of
that column, compared as Python numbers), text is taken as is; keys put numeric fields first so that any
order-preserving encoding gives the same order.  Knobs: batch_size and the KVFile cache size (spill path).
"""
import datetime
import decimal
import json
import random
import sys

from ..core.prop import Prop
from ..gen import tables as T
from ..seams import faults as F

STR_POOLS = [['a', 'b', 'ab', 'abc', 'B', 'é', 'zz'], ['a', 'a ', 'a!', 'a/', 'a0', 'aa', 'a~'], ['x', 'xy', 'xyz', 'x ', 'x-'], ['é', 'e', 'ë', 'z', 'Z', '\U0001F600', 'זה'], ['k1', 'k10', 'k2', 'k'], ['e\u0301', 'f', 'z', 'e', '\u00e9', 'A\u030a', '\u212b', '\u00c5', 'a'],      # composed / decomposed spellings are different strings
             ['total', 'total\tnet', 'total\nof year', 'total\r\n', 'total ', 'tota', 'total\x01'],
             ['10', '9', '1.0', '1', ' 7', '1e3', '-5', 'nan', 'inf', '1_0', 'zebra']]     # text that looks like numbers is still text
NUM_POOLS = [[0, 1, -1, 2, 10, -10, 100], [0.5, -0.5, 1.25, -1.25, 0.0, 2.0], [1e10, -1e10, 1e-5, -1e-5, 3.0, -3.0], [1e300, -1e300, -1e232, 1e200, -1e200, 5.0],
             [decimal.Decimal('1.5'), decimal.Decimal('-2.25'), decimal.Decimal('100'), decimal.Decimal('0.001'), 7, -7.5], [2**40, -2**40, 2**52, 12345, -12345], [0, 0.0, -0.0, 1, -1],
             [1, 1.0, decimal.Decimal('1.00'), 2, 2.0, decimal.Decimal('2.50'), 2.5, -2, -2.0, decimal.Decimal('-2.00')]]
# cells of a column that takes no part in any key: "a permutation of the input rows" means they come out as they went in
PAYLOADS = [datetime.datetime(2020, 1, 2, 3, 4, 5, 678901), datetime.datetime(1999, 12, 31, 23, 59, 59, 999999, datetime.timezone(datetime.timedelta(hours=5, minutes=30))),
            datetime.datetime(2021, 6, 1, 0, 0, 0, 1, datetime.timezone(datetime.timedelta(hours=-8), 'PST')), datetime.time(12, 0, 13, 361477), datetime.time(0, 0, 0, 5),
            datetime.timedelta(days=1, seconds=2, microseconds=3), datetime.timedelta(microseconds=-7), datetime.date(2020, 2, 29), decimal.Decimal('1.10'), decimal.Decimal('1E+3'),
            {'a': [1, 'x', decimal.Decimal('2.50')], 'b': {'c': None}}, [1, [2, [3, 'deep']], {'k': 0.1}], 1e-7, -0.0, None, '', ' padded ', True]


def _run(payload, sub):
    import dataflows as DF
    sc = payload['sc']
    kv = F.install_kv(sub, size=payload.get('kvsize'))
    rows = T.rows_of(sc['table'])
    desc = {'resources': [{'name': 'res', 'path': 'res.csv', 'profile': 'tabular-data-resource', 'schema': {'fields': [dict(f) for f in sc['table']['fields']]}}]}
    key = sc['key']
    if isinstance(key, dict):            # callable key
        f = key['callable']
        if f == 'lower':
            key = lambda row: str(row['s']).lower()      # noqa
        elif f == 'len':
            key = lambda row: '%04d' % len(str(row['s']))   # noqa
        else:
            key = lambda row: str(row['s'])              # noqa
    iters = [iter(rows)]
    pre_ids = None
    if sc.get('pre'):
        # another resource sorted by the same step, *before* the main one, whose key fields are text where the main one's are numbers
        prows = T.rows_of(sc['pre'])
        desc['resources'].insert(0, {'name': 'pre', 'path': 'pre.csv', 'profile': 'tabular-data-resource', 'schema': {'fields': [dict(f) for f in sc['pre']['fields']]}})
        iters.insert(0, iter(prows))
    links = [DF.load((desc, iters), strip=False)]
    if sc.get('other'):
        links.append([{'_id': 5000 + i, 'n': 1} for i in range(3)])
    links.append(DF.sort_rows(key, resources=['pre', 'res'] if sc.get('pre') else 'res', reverse=sc.get('reverse', False), batch_size=payload.get('batch_size', 1000)))
    ds = DF.Flow(*links).datastream()
    out = [list(r) for r in ds.res_iter]
    if sc.get('pre'):
        pre_ids = [r['_id'] for r in out.pop(0)]
    return {'pre_ids': pre_ids, 'ids': [r['_id'] for r in out[0]], 'other': [r['_id'] for r in out[1]] if len(out) > 1 else None, 'kv_ops': kv['n'],
            'same_content': [{k: T.enc(v) for k, v in r.items()} for r in out[0]] == [{k: T.enc(v) for k, v in r.items()} for r in sorted(rows, key=lambda r: [x['_id'] for x in out[0]].index(r['_id']))] if len(out[0]) == len(rows) and set(r['_id'] for r in out[0]) == set(r['_id'] for r in rows) else False}


def ref_order(sc):
    rows = T.rows_of(sc['table'])
    key = sc['key']
    if isinstance(key, dict):
        f = key['callable']
        kf = {'lower': lambda r: str(r['s']).lower(), 'len': lambda r: '%04d' % len(str(r['s'])), 'id': lambda r: str(r['s'])}[f]
        keys = [kf(r) for r in rows]
    else:
        import re
        if isinstance(key, list):
            pieces = [('', k, '') for k in key]
            names = list(key)
        else:
            names = re.findall(r'\{([^}:!]+)[^}]*\}', key)
            names = names
        ranks = {}
        for n in set(names):
            vals = [r[n] for r in rows]
            if vals and all(isinstance(v, (int, float, decimal.Decimal)) and not isinstance(v, bool) for v in vals):
                distinct = sorted(set(float(v) for v in vals))
                ranks[n] = {d: i for i, d in enumerate(distinct)}
        keys = []
        for r in rows:
            sub = dict(r)
            for n, rk in ranks.items():
                sub[n] = '%06d' % rk[float(r[n])]
            if isinstance(key, list):
                keys.append(''.join(str(sub[k]) for k in key))
            else:
                keys.append(key.format(**sub))
    order = sorted(range(len(rows)), key=lambda i: (keys[i], i))
    if sc.get('reverse'):
        order = order[::-1]
    return [rows[i]['_id'] for i in order], keys


class C12(Prop):
    ID = 'C12'
    TITLE = 'sort_rows emits a stable, correctly ordered permutation'
    LEVEL = 'exploration'
    TECHNIQUE = 'deterministic simulation with spill/batch knobs: real sort_rows vs a rank-based reference order; differential across batch sizes and KVFile cache sizes'
    SIMTIME_UNIT = 'sorts executed (forked), KVFile operations'
    RULE = ('one evaluation = one table of 0-40 rows (thorough: up to 12000) with duplicates, negative / fractional / huge numbers (ints, floats, Decimals, -0.0), strings that are prefixes of one '
            'another incl. characters below "0", unicode x key as format string, field list or callable x reverse x batch_size in {1,2,7,1000} x 2 KVFile cache sizes from {1,3,64,10240}, a second '
            'resource passing by. Non-trivial = at least two rows share a key and at least two differ; distinct = distinct (key form, value pools, reverse, knobs, size).')
    ASSUMPTIONS = ['numeric key values are distinct in double precision (the encoding\'s stated domain) and key fields are non-null', 'multi-field keys put numeric fields before text so that the order does not depend on the particular order-preserving number encoding']
    REAL_VS_STUB = {'real': ['dataflows sort_rows', 'kvfile + sqlite ordering'], 'stub': ['KVFile twin: cache-size knob and operation counter']}
    PROBES = ['reverse', 'spill-path', 'prefix-strings-below-0', 'negative-zero', 'huge-negative', 'decimal-values', 'callable-key', 'format-string-key', 'field-list-key', 'two-field-key', 'ties', 'other-resource', 'rows>10240', 'equal-numbers-different-spelling', 'numeric-looking-text', 'two-resources-sorted-by-one-step', 'control-characters-after-a-prefix', 'literal-text-between-text-fields', 'rich-payload-cells', 'literal-text-after-the-last-field']
    TIERS = {'quick': dict(runs=1500, wall=100, run_wall=300),
             'thorough': dict(runs=40000, wall=1700, run_wall=600)}
    SHRINK_FROZEN = ('fields',)

    def generate(self, rng, tier):
        n = rng.choice([0, 1, 2, 3, 5, 8, 13, 40])
        if tier == 'thorough' and rng.random() < 0.004:
            n = rng.choice([10241, 12000])
        spool = rng.choice(STR_POOLS)
        npool = rng.choice(NUM_POOLS)
        npool2 = rng.choice(NUM_POOLS[:3])
        fields = [{'name': '_id', 'type': 'integer'}, {'name': 'n', 'type': 'number'}, {'name': 'm', 'type': 'number'}, {'name': 's', 'type': 'string'},
                  {'name': 't', 'type': 'string'}]
        rows = []
        tpool = ['x9', 'x', 'x10', 'y', 'x ']
        for i in range(n):
            rows.append([i, T.enc(rng.choice(npool)), T.enc(rng.choice(npool2)), rng.choice(spool), rng.choice(tpool)])
        form = rng.choice(['fmt-n', 'fmt-s', 'list-n', 'list-s', 'list-nm', 'fmt-ns', 'fmt-nms', 'callable', 'list-ss', 'fmt-ts', 'fmt-ts2'])
        key = {'fmt-n': '{n}', 'fmt-s': '{s}', 'list-n': ['n'], 'list-s': ['s'], 'list-nm': ['n', 'm'], 'fmt-ns': '{n}|{s}', 'fmt-nms': '{n}{m}-{s}',
               'callable': {'callable': rng.choice(['lower', 'len', 'id'])}, 'list-ss': ['s', 's'],
               # two text fields with literal text between (and around) them: the literals are part of the key
               'fmt-ts': '{t}|{s}', 'fmt-ts2': 'k:{t}:{s}!'}[form]
        # literal text AFTER the last field is part of the key as well: with '~' nearly every continuation of a prefix sorts below it
        # (decided from what is already drawn, so that no scenario changes otherwise)
        if form == 'fmt-s' and n % 2 == 0:
            key = '{s}~'
        elif form == 'fmt-ns' and n % 2 == 1:
            key = '{n}|{s}~'
        sc = {'table': {'name': 'res', 'fields': fields, 'rows': rows}, 'key': key, 'reverse': rng.random() < 0.4, 'other': rng.random() < 0.3,
              'batch': rng.sample([1, 2, 7, 1000], 2), 'kv': rng.sample([1, 3, 64, 10240], 2)}
        if rng.random() < 0.5:
            fields.append({'name': 'p', 'type': 'any'})
            for row in rows:
                row.append(T.enc(rng.choice(PAYLOADS)))
        if rng.random() < 0.2:
            pf = [{'name': '_id', 'type': 'integer'}, {'name': 'n', 'type': 'string'}, {'name': 'm', 'type': 'string'}, {'name': 's', 'type': 'string'}, {'name': 't', 'type': 'string'}]
            sc['pre'] = {'name': 'pre', 'fields': pf, 'rows': [[9000 + i, rng.choice(['x10', 'x9', 'x', 'y']), rng.choice(['p', 'q']), rng.choice(spool), rng.choice(tpool)] for i in range(rng.choice([1, 2, 5]))]}
        return sc

    def execute(self, sc, ctx):
        rows = T.rows_of(sc['table'])
        try:
            want, keys = ref_order(sc)
        except Exception as e:  # noqa
            ctx.discard('reference cannot evaluate: %s' % e)
        self._probes(sc, ctx, rows, keys)
        if rows and 'p' in rows[0]:
            ctx.probe('rich-payload-cells')
        if isinstance(sc['key'], str) and not sc['key'].endswith('}'):
            ctx.probe('literal-text-after-the-last-field')
        outs = []
        for bs, kvsize in zip((sc.get('batch') or [1000, 1000])[:2], (sc.get('kv') or [10240, 3])[:2]):
            r = ctx.subrun(_run, {'sc': sc, 'batch_size': bs, 'kvsize': kvsize}, wall=500)
            outs.append(((bs, kvsize), r))
        desc = 'key=%s reverse=%s rows=%s' % (json.dumps(sc['key']), sc.get('reverse'), json.dumps(sc['table']['rows'])[:500])
        ids = [r['_id'] for r in rows]
        for (bs, kvsize), r in outs:
            knobs = 'batch_size=%r, KVFile cache size=%r' % (bs, kvsize)
            if r['status'] != 'ok':
                cause = r['exc'].get('cause') or r['exc']
                ctx.violation('raised', cause['type'], 'sort_rows raised %s: %s (%s); %s' % (cause['type'], cause['str'][:200], knobs, desc))
            v = r['value']
            if v['kv_ops'] and kvsize < len(rows):
                ctx.probe('spill-path')
            if sc.get('pre'):
                pwant, _pk = ref_order(dict(sc, table=sc['pre']))
                if v.get('pre_ids') != pwant:
                    ctx.violation('order', 'other-selected-resource', 'the first selected resource came out as %r, expected %r (%s); %s' % (v.get('pre_ids'), pwant, knobs, desc))
            got = v['ids']
            if sorted(got) != sorted(ids):
                ctx.violation('permutation', 'ids', 'output ids %r are not a permutation of the input ids (%s); %s' % (got[:40], knobs, desc))
            if not v['same_content']:
                ctx.violation('permutation', 'content', 'a row changed while being sorted (%s); %s' % (knobs, desc))
            if sc.get('other') and v['other'] != [5000, 5001, 5002]:
                ctx.violation('permutation', 'other-resource', 'the unselected resource changed: %r (%s); %s' % (v['other'], knobs, desc))
            if got != want:
                k = next(i for i, (a, b) in enumerate(zip(got, want)) if a != b)
                # classify: wrong order of distinct keys, or wrong order among equal keys
                kg, kw = keys[got[k]], keys[want[k]]
                if kg == kw:
                    clause = 'reverse' if sc.get('reverse') else 'stability'
                else:
                    clause = 'order'
                ctx.violation(clause, 'mismatch', 'position %d holds row id %r (reference key %r) where the reference order has id %r (key %r); got %r, expected %r (%s); %s' % (
                    k, got[k], kg, want[k], kw, got[:30], want[:30], knobs, desc), got_key=kg, want_key=kw, row_got=T.enc(rows[got[k]].get('s')), n_got=T.enc(rows[got[k]].get('n')),
                    row_want=T.enc(rows[want[k]].get('s')), n_want=T.enc(rows[want[k]].get('n')))
        if outs[0][1]['value']['ids'] != outs[1][1]['value']['ids']:
            ctx.violation('knob-dependence', 'differ', 'output differs between (batch_size, cache size) %r and %r; %s' % (outs[0][0], outs[1][0], desc))
        if len(set(keys)) >= 2 and len(set(keys)) < len(keys):
            ctx.nt(json.dumps(sc['key']), sc.get('reverse'), sc.get('batch'), sc.get('kv'), len(rows), sorted(set(str(r['s']) for r in rows))[:4])
        ctx.sample = {'key': sc['key'], 'reverse': sc.get('reverse'), 'batch': sc.get('batch'), 'kv': sc.get('kv'), 'rows': len(rows), 'sample_rows': sc['table']['rows'][:5]}

    def _probes(self, sc, ctx, rows, keys):
        if sc.get('reverse'):
            ctx.probe('reverse')
        if isinstance(sc['key'], str) and '{t}' in sc['key']:
            ctx.probe('literal-text-between-text-fields')
        if sc.get('pre'):
            ctx.probe('two-resources-sorted-by-one-step')
        if any(isinstance(r.get('s'), str) and any(ord(ch) < 32 for ch in r['s']) for r in rows):
            ctx.probe('control-characters-after-a-prefix')
        if any(r.get('s') in ('10', '9', '1e3', 'nan') for r in rows) and 's' in json.dumps(sc['key']):
            ctx.probe('numeric-looking-text')
        k = sc['key']
        if isinstance(k, dict):
            ctx.probe('callable-key')
        elif isinstance(k, list):
            ctx.probe('field-list-key')
            if len(k) > 1:
                ctx.probe('two-field-key')
        else:
            ctx.probe('format-string-key')
        if len(set(keys)) < len(keys):
            ctx.probe('ties')
        if sc.get('other'):
            ctx.probe('other-resource')
        if len(rows) > 10240:
            ctx.probe('rows>10240')
        for r in rows:
            if isinstance(r['s'], str) and len(r['s']) > 1 and r['s'][-1] < '0':
                ctx.probe('prefix-strings-below-0')
            for c in ('n', 'm'):
                v = r[c]
                if isinstance(v, float) and v == 0 and str(v).startswith('-'):
                    ctx.probe('negative-zero')
                if isinstance(v, (int, float)) and v < -1e231:
                    ctx.probe('huge-negative')
                if isinstance(v, decimal.Decimal):
                    ctx.probe('decimal-values')
        for c in ('n', 'm'):
            sp = {}
            for r in rows:
                sp.setdefault(float(r[c]), set()).add(repr(r[c]))
            if any(len(x) > 1 for x in sp.values()):
                ctx.probe('equal-numbers-different-spelling')


PROP = C12()
