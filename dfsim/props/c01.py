"""C01 - lazy chained execution equals step-by-step evaluation of the same steps.

The two sides of the property are two *schedules of the same coroutines*: interleaved pulls (what Flow(s1..sn) does)
and serial evaluation (each step run to completion on the materialised, deep-copied output of the previous one).
Both run real code; no model of any processor is involved.  Further schedules: materialisation barriers at any
subset of step boundaries, any nesting of the steps into sub-Flows, always-true conditionals, and the three
observation APIs.
"""
import copy
import json

from ..core.prop import Prop
from ..gen import pipelines as PL
from ..gen import steps as ST

APIS = ['results', 'process', 'datastream']


def _expand(payload, sub):
    rng = sub.rng('expand')
    import random
    rng = random.Random(payload['gseed'])
    tables = PL.gen_tables(rng, big_p=payload.get('big_p', 0.08), nested_p=0.25)
    stats = {}
    steer = rng.random() < payload.get('steer_p', 0.85)
    # known finding C01-dump-counters: most pipelines keep file dumpers at the very end so that runs keep exploring
    sc = PL.gen_pipeline(rng, tables, payload['nsteps'], exclude=('checkpoint',) + (('dump_to_path', 'dump_to_zip') if steer else ()), stats=stats)
    if steer and rng.random() < 0.3:
        sc['steps'].append(ST.GENS[rng.choice(['dump_to_path', 'dump_to_zip'])](rng, None, ST.G()))
    # motif: duplicate a resource that has array / object cells, then edit nested values in place further down the same chain
    nested = [t['name'] for t in tables if any(f['type'] in ('array', 'object') for f in t['fields']) and t['rows']]
    if nested and rng.random() < 0.35:
        try:
            names = [r['name'] for r in PL.describe(sc, {'calls': {}})['resources']]
        except Exception:  # noqa
            names = []
        src = [n for n in nested if names.count(n) == 1]
        if src:
            extra = [{'step': 'duplicate', 'source': rng.choice(src), 'target': 'dupm', 'to_end': rng.random() < 0.5, 'batch_size': rng.choice([1, 2, 50, 1000])},
                     {'step': 'nested_edit', 'tag': 'seenm'}]
            trial = dict(sc, steps=sc['steps'] + extra)
            try:
                PL.describe(trial, {'calls': {}})
                sc['steps'] = trial['steps']
            except Exception:  # noqa
                pass
    # motif: a step that carries state from one resource to the next, followed by the deletion of the earlier resource
    if rng.random() < 0.12:
        try:
            names = [r['name'] for r in PL.describe(sc, {'calls': {}})['resources']]
        except Exception:  # noqa
            names = []
        uniq = [n for n in names if names.count(n) == 1]
        if uniq:
            src = rng.choice(uniq)
            extra = [{'step': 'duplicate', 'source': src, 'target': 'dupd', 'to_end': rng.random() < 0.5, 'batch_size': rng.choice([1, 2, 1000])},
                     {'step': 'delete_resource', 'resources': rng.choice([src, [src]])}]
            trial = dict(sc, steps=sc['steps'] + extra)
            try:
                PL.describe(trial, {'calls': {}})
                sc['steps'] = trial['steps']
            except Exception:  # noqa
                pass
    # motif: a join that keeps its source, followed by an in-place edit of the cells it aggregated
    if rng.random() < 0.15:
        try:
            d = ST.D(PL.describe(sc, {'calls': {}}))
            j = ST.gen_join(rng, d, ST.G())
        except Exception:  # noqa
            j = None
        if j:
            j['source_delete'] = False
            j['fields'] = {'jm%d' % i: v for i, (k, v) in enumerate(sorted(j['fields'].items()))}
            trial = dict(sc, steps=sc['steps'] + [j, {'step': 'bump', 'by': 1000000}])
            try:
                PL.describe(trial, {'calls': {}})
                sc['steps'] = trial['steps']
            except Exception:  # noqa
                pass
    sc['source_kinds'] = [rng.choice(['list', 'list', 'gen', 'iter']) for _ in tables]
    if rng.random() < payload.get('bad_p', 0.10):
        sc['steps'].insert(rng.randrange(len(sc['steps']) + 1), {'step': 'bad_link', 'kind': rng.choice(ST.BAD_LINKS)})
    n = len(sc['steps'])
    variants = [{'segments': [list(range(n))], 'api': 'results'},                       # fully lazy, flat
                {'segments': [[]] + [[i] for i in range(n)], 'api': 'datastream'}]       # fully serial (reference)
    for _ in range(payload.get('nvariants', 3)):
        variants.append(gen_variant(rng, n))
    sc['variants'] = variants
    sc['gen_stats'] = stats
    # row-step contract motif, drawn from its own stream so that the scenarios above are what they were without it: a row
    # callable that returns a NEW row holding only the kept cells that are set (empty for rows where none is)
    r2 = random.Random(payload['gseed'] ^ 0x5bd1e995)
    if not any(sp['step'] == 'bad_link' for sp in sc['steps']) and r2.random() < payload.get('sparse_p', 0.3):
        try:
            names = sorted({f['name'] for r in PL.describe(sc, {'calls': {}})['resources'] for f in r['schema']['fields']} - {'_id'})
        except Exception:  # noqa
            names = None
        if names is not None:
            keep = r2.sample(names, min(len(names), r2.choice([0, 1, 1, 2])))
            sc['sparse'] = {'step': 'user', 'param': 'row', 'kind': r2.choice(['function', 'lambda', 'method', 'partial', 'callable_obj']),
                            'mode': 'sparse', 'keep': keep, 'marker': 'mksp', 'api': r2.choice(['results', 'datastream']),
                            'wrap': r2.choice(['flat', 'flat', 'nested', 'cond'])}
    # the same callable object given as a link twice (appended, so that the step indices of the variants stay valid)
    users = [sp for sp in sc['steps'] if sp['step'] == 'user' and sp.get('param') in ('row', 'rows') and sp.get('mode') in ('inplace', 'newdict')]
    if users and r2.random() < 0.15:
        sc['steps'].append(dict(r2.choice(users), step='user_again'))
    # a second evaluation of the whole chain in the same interpreter (fresh step objects, fresh sources): the outcome of a run
    # does not depend on which pipelines the process has run before.  Only for chains without effects outside the process.
    if r2.random() < 0.2:
        # motif: keyed resources concatenated at the end of the chain
        try:
            trial = dict(sc, steps=sc['steps'] + [{'step': 'set_primary_key', 'key': ['_id'], 'resources': None}])
            cat = ST.gen_concatenate(r2, ST.D(PL.describe(trial, {'calls': {}})), ST.G())
            if cat:
                cat['target'] = 'catm'
                trial['steps'] = trial['steps'] + [cat]
                PL.describe(trial, {'calls': {}})
                sc['steps'] = trial['steps']
        except Exception:  # noqa
            pass
    if r2.random() < 0.3 and not any(('dump' in sp['step']) or sp['step'] in ('stream', 'unstream', 'checkpoint') for sp in sc['steps']):
        sc['again'] = r2.choice(['results', 'datastream'])
    return sc


def model_user(spec, rows_by_res):
    """The row-step contract, evaluated by hand on materialised rows (the generated user callables are known to the harness):
    a row callable that returns None passes on the row it was given (with its in-place edits); one that returns a row passes
    on THAT row, whatever it holds; a rows callable passes on what it yields.  ST.build puts add_field(marker) in front."""
    mk, mode = spec['marker'], spec.get('mode', 'inplace')
    out, empty = [], 0
    for rows in rows_by_res:
        o = []
        for row in rows:
            r = dict(row)
            r.setdefault(mk, None)
            if mode in ('inplace', 'newdict'):
                r[mk] = 1
            elif mode == 'sparse':
                r = {k: r[k] for k in spec.get('keep') or () if r.get(k) is not None}
                empty += not r
            o.append(r)
        out.append(o)
    return out, empty


def _retest_chain(payload, sub):
    # the chain without the refused link must be valid (and have resources); only then is the refusal judged
    try:
        d = PL.describe({'tables': payload['tables'], 'steps': payload['steps'][:-1], 'source_kinds': payload.get('source_kinds')}, {'calls': {}})
    except Exception:  # noqa
        return 'prefix-invalid'
    if not d.get('resources'):
        return 'no-resources'
    PL.describe({'tables': payload['tables'], 'steps': payload['steps'], 'source_kinds': payload.get('source_kinds')}, {'calls': {}})
    return True


def gen_variant(rng, n):
    # split points
    segs = []
    cur = []
    if rng.random() < 0.3:
        segs.append([])                 # barrier right after the sources
    p = rng.choice([0.0, 0.0, 0.2, 0.5])
    for i in range(n):
        cur.append(i)
        if i < n - 1 and rng.random() < p:
            segs.append(cur)
            cur = []
    segs.append(cur)
    segs = [nest(rng, s, 0) for s in segs]
    return {'segments': segs, 'api': rng.choice(APIS)}


def nest(rng, idxs, depth):
    if depth >= 3 or len(idxs) == 0:
        return list(idxs)
    out = []
    i = 0
    while i < len(idxs):
        if rng.random() < 0.35:
            j = rng.randrange(i + 1, len(idxs) + 1)
            sub = nest(rng, idxs[i:j], depth + 1)
            out.append({'cond': sub} if rng.random() < 0.35 else sub)
            i = j
        else:
            out.append(idxs[i])
            i += 1
    return out


def _links_of_tree(tree, sc, env):
    import dataflows as DF
    links = []
    for node in tree:
        if isinstance(node, int):
            links.extend(ST.build(sc['steps'][node], env))
        elif isinstance(node, dict):
            links.append(DF.conditional(lambda dp: True, DF.Flow(*_links_of_tree(node['cond'], sc, env))))
        else:
            links.append(DF.Flow(*_links_of_tree(node, sc, env)))
    return links


def _run_variant(payload, sub):
    if payload.get('twice'):
        _run_variant_once(payload, sub)
    return _run_variant_once(payload, sub)


def _run_variant_once(payload, sub):
    import dataflows as DF
    from datapackage import Package
    from ..core.ctx import jsonable
    sc, var = payload['sc'], payload['variant']
    env = {'calls': {}, 'reuse_targets': bool(payload.get('twice'))}

    class Materialised(DF.DataStreamProcessor):
        def __init__(self, desc, rows):
            super().__init__()
            self.desc, self.rows = desc, rows

        def _process(self):
            dp = Package(copy.deepcopy(self.desc))
            return DF.DataStream(dp, [DF.ResourceWrapper(r, iter(copy.deepcopy(rw))) for r, rw in zip(dp.resources, self.rows)], [])

    cur = None
    nseg = len(var['segments'])
    inputs = []
    contract = []
    empties = 0

    def check_contract(tree, before, after):
        # serial evaluation only: segment = exactly one user row/rows step on materialised input
        nonlocal empties
        if before is None or after is None or len(tree) != 1 or not isinstance(tree[0], int):
            return
        spec = sc['steps'][tree[0]]
        if spec['step'] != 'user' or spec.get('param') not in ('row', 'rows'):
            return
        want, e = model_user(spec, before[1])
        empties += e
        want, got = jsonable(want), jsonable(after)
        if want != got:
            contract.append({'step': tree[0], 'mode': spec.get('mode'), 'kind': spec.get('kind'), 'param': spec.get('param'), 'diff': first_diff(got, want)})
    for si, tree in enumerate(var['segments']):
        links = PL.source_links(sc['tables'], sc.get('source_kinds')) if cur is None else [Materialised(*cur)]
        before = copy.deepcopy(cur) if payload.get('contract') else None
        links += _links_of_tree(tree, sc, env)
        last = si == nseg - 1
        if not last:
            ds = DF.Flow(*links).datastream()
            rows = [list(r) for r in ds.res_iter]
            # "the fully materialised output of the previous step": the descriptor is a JSON document, so it is
            # materialised as one (a deepcopy would preserve references shared between resources)
            cur = (json.loads(json.dumps(ds.dp.descriptor)), rows)
            inputs.append(sum(len(r) for r in rows))
            check_contract(tree, before, rows)
            continue
        api = var['api']
        if api == 'results':
            rows, dp, _ = DF.Flow(*links).results()
            desc = dp.descriptor
        elif api == 'process':
            # process() exposes the descriptor (and stats) only; rows are not observable without adding a step
            dp, _ = DF.Flow(*links).process()
            rows, desc = None, dp.descriptor
        else:
            ds = DF.Flow(*links).datastream()
            rows = [list(r) for r in ds.res_iter]
            desc = ds.dp.descriptor
            check_contract(tree, before, rows)
    return {'rows': jsonable(rows), 'dp': jsonable(desc), 'calls': env['calls'], 'inputs': inputs, 'contract': contract, 'empty_rows': empties,
            'cast': _cast(desc, rows) if var['api'] == 'datastream' else None}


def _cast(desc, rows):
    """raw rows -> what Table Schema's cast gives (to compare raw APIs with results())"""
    from tableschema import Field
    from ..core.ctx import jsonable
    out = []
    try:
        for r, rw in zip(desc['resources'], rows):
            fields = [Field(f) for f in r['schema']['fields']]
            o = []
            for row in rw:
                row = dict(row)
                for f in fields:
                    row[f.name] = f.cast_value(row.get(f.name))
                o.append(row)
            out.append(o)
        return jsonable(out)
    except Exception:  # noqa
        return None


class C01(Prop):
    ID = 'C01'
    TITLE = 'Lazy chained execution equals step-by-step evaluation of the same steps'
    LEVEL = 'exploration'
    TECHNIQUE = 'deterministic simulation of pull schedules: differential between interleaved, serial (materialised) and re-grouped executions of the same real coroutines'
    SIMTIME_UNIT = 'pipeline executions (each in its own forked process) and rows pulled'
    RULE = ('one evaluation = one seeded well-typed pipeline (1-3 typed sources of 0-150 rows crossing the 100-row inference sample, 1-8 steps drawn from the typed '
            'alphabet incl. user row/rows/package callables as function, lambda, bound method, partial, callable object) executed under 5 schedules: fully lazy, '
            'fully serial (every step on the materialised deep-copied output of the previous one) and 3 seeded mixes of materialisation barriers, nested sub-Flows '
            '(depth <= 3), always-true conditionals and observation API (results / process+sink / datastream). Non-trivial = at least 2 steps and at least one row; '
            'distinct = distinct (step kinds sequence, variant shapes).')
    ASSUMPTIONS = ['a generated pipeline whose serial reference evaluation raises is outside the quantifier (ill-typed) and is discarded, unless the lazy evaluation does not raise',
                   'the descriptor and rows are compared exactly; results() is compared with raw APIs through Table Schema casts of the raw rows']
    REAL_VS_STUB = {'real': ['everything under dataflows/ that the pipeline touches'], 'stub': ['none (the schedule is chosen by how the harness groups and drains the real generators)']}
    PROBES = ['refused-user-callable-retested', 'user-bound-method', 'user-partial', 'user-callable-obj', 'user-lambda', 'user-function', 'crossed-inference-sample', 'nested-depth>=2', 'conditional-wrapped',
              'barrier-after-sources', 'api-process', 'api-datastream', 'both-raise-discard', 'uninterpretable-link', 'one-shot-source', 'nested-in-place-edit',
              'row-callable-returns-new-row', 'row-callable-returns-empty-row', 'second-evaluation-in-one-interpreter', 'same-callable-object-twice']
    TIERS = {'quick': dict(runs=500, wall=100, run_wall=300),
             'thorough': dict(runs=15000, wall=1700, run_wall=600)}
    SHRINK_FROZEN = ('fields', 'gen_stats')

    def generate(self, rng, tier):
        return {'gseed': rng.randrange(2**62), 'nsteps': rng.choice([1, 2, 3, 4, 5, 6, 8]), 'nvariants': 3, 'big_p': 0.08}

    def execute(self, sc, ctx):
        if 'steps' not in sc:
            r = ctx.subrun(_expand, sc)
            if r['status'] != 'ok':
                ctx.discard('generation failed: %s' % json.dumps(r.get('exc'))[:300])
            sc = r['value']
            ctx.extra['expanded'] = sc
        sc = self.normalize(sc)
        n = len(sc['steps'])
        for k, v in (sc.get('gen_stats') or {}).items():
            if isinstance(v, int):
                ctx.count('gen:' + k, v)
        cand = (sc.get('gen_stats') or {}).get('ill-user-candidate')
        if cand:
            # "every link taking effect": a well-formed user callable was refused while the chain was being generated; the
            # refused chain is part of the scenario and is run again here (so that a replay judges the code, not the record)
            ctx.probe('refused-user-callable-retested')
            r = ctx.subrun(_retest_chain, {'tables': sc['tables'], 'source_kinds': sc.get('source_kinds'), 'steps': cand['prefix'] + [cand['spec']]})
            if r['status'] == 'exc':
                c = r['exc'].get('cause') or r['exc']
                ctx.violation('valid-link-rejected', '%s:%s' % (cand['spec'].get('kind'), c['type']),
                              'a well-formed user %s-callable of kind %s is rejected when added to a valid chain of %d steps: %s: %s' % (
                                  cand['spec'].get('param'), cand['spec'].get('kind'), len(cand['prefix']), c['type'], c['str'][:200]), kind=cand['spec'].get('kind'))
        outs = []
        for vi, var in enumerate(sc['variants']):
            r = ctx.subrun(_run_variant, {'sc': sc, 'variant': var, 'contract': vi == 1})
            outs.append(r)
        ref = outs[1]
        lazy = outs[0]
        for sp in sc['steps']:
            if sp['step'] == 'user':
                ctx.probe({'method': 'user-bound-method', 'partial': 'user-partial', 'callable_obj': 'user-callable-obj', 'lambda': 'user-lambda', 'function': 'user-function'}[sp['kind']])
        if any(len(t['rows']) > 100 for t in sc['tables']):
            ctx.probe('crossed-inference-sample')
        if any(sp['step'] == 'user_again' for sp in sc['steps']):
            ctx.probe('same-callable-object-twice')
        if any(sp['step'] == 'nested_edit' for sp in sc['steps']):
            ctx.probe('nested-in-place-edit')

        def shape(o):
            return [len(r) for r in o['value']['rows'] or []]

        def describe_var(var):
            return json.dumps(var)[:200]
        badlinks = [sp for sp in sc['steps'] if sp['step'] == 'bad_link']
        if badlinks:
            ctx.probe('uninterpretable-link')
            for vi, o in enumerate(outs):
                if o['status'] == 'ok':
                    ctx.violation('link-silently-skipped', 'bad:' + badlinks[0]['kind'], 'a link the framework cannot interpret (%s) was accepted without an error by variant %s; steps=%s' % (
                        badlinks[0]['kind'], describe_var(sc['variants'][vi]), json.dumps(sc['steps'])[:500]), variant=vi, kind=badlinks[0]['kind'])
            ctx.nt('bad-link', badlinks[0]['kind'], n)
            ctx.sample = {'steps': sc['steps'], 'expect': 'every schedule raises'}
            return
        if any(k != 'list' for k in sc.get('source_kinds') or []):
            ctx.probe('one-shot-source')
        if ref['status'] != 'ok':
            bad = [i for i, o in enumerate(outs) if o['status'] == 'ok']
            if bad:
                ctx.violation('one-side-raises', 'serial-raises', 'serial (step-by-step) evaluation raises %s but variant %s returns normally; steps=%s' % (
                    json.dumps(ref.get('exc'))[:300], describe_var(sc['variants'][bad[0]]), json.dumps(sc['steps'])[:600]), variant=bad[0])
            ctx.probe('both-raise-discard')
            ctx.discard('ill-typed: every schedule raises (%s)' % (ref.get('exc') or {}).get('type'))
        refv = ref['value']
        pending = []
        for vi, (var, o) in enumerate(zip(sc['variants'], outs)):
            if vi == 1:
                continue
            if o['status'] != 'ok':
                ctx.violation('one-side-raises', 'variant-raises', 'step-by-step evaluation succeeds but variant %s raises %s; steps=%s' % (
                    describe_var(var), json.dumps(o.get('exc'))[:400], json.dumps(sc['steps'])[:600]), variant=vi)
            v = o['value']
            want_rows = refv['cast'] if var['api'] == 'results' and refv['cast'] is not None else refv['rows']
            got_rows = v['rows']
            if var['api'] == 'results' and refv['cast'] is None:
                continue
            if v['dp'] != refv['dp'] and strip_counters(v['dp']) == strip_counters(refv['dp']):
                # lowest priority: reported only if nothing else is wrong with this pipeline
                pending.append(('schedule-equivalence:descriptor', 'dump-counters', 'descriptor of variant %s differs from step-by-step evaluation only in the '
                                'dump counters (bytes / hash / count_of_rows) that a file dumper adds to its descriptor after its rows have passed; steps=%s' % (
                                    describe_var(var), json.dumps(sc['steps'])[:600]), {'variant': vi}))
            elif v['dp'] != refv['dp']:
                ctx.violation('schedule-equivalence:descriptor', 'differ', 'descriptor of variant %s differs from step-by-step evaluation: %s vs %s; steps=%s' % (
                    describe_var(var), json.dumps(v['dp'])[:500], json.dumps(refv['dp'])[:500], json.dumps(sc['steps'])[:600]), variant=vi)
            if got_rows is not None and got_rows != want_rows:
                diff = first_diff(got_rows, want_rows)
                ctx.violation('schedule-equivalence:rows', 'differ', 'rows of variant %s differ from step-by-step evaluation at %s; steps=%s' % (
                    describe_var(var), diff, json.dumps(sc['steps'])[:600]), variant=vi, api=var['api'])
            for seg in var['segments']:
                walk_probe(seg, 1, ctx)
            if var['segments'] and var['segments'][0] == [] and vi != 1:
                ctx.probe('barrier-after-sources')
            if var['api'] != 'results':
                ctx.probe('api-' + var['api'])
        # every link takes effect
        inputs = refv['inputs']            # rows entering step i in the serial evaluation: inputs[i]
        for i, sp in enumerate(sc['steps']):
            if sp['step'] != 'user':
                continue
            for vi, o in enumerate(outs):
                calls = o['value']['calls'].get(sp['marker'], 0)
                need = 1 if sp['param'] == 'package' or inputs[i] > 0 else 0
                if sp['param'] == 'rows' and inputs[i] == 0:
                    need = 0
                if calls < need:
                    ctx.violation('link-silently-skipped', sp['kind'], 'user %s-callable given as %s (step %d) never ran and no error was raised (variant %s)' % (
                        sp['param'], sp['kind'], i, describe_var(sc['variants'][vi])), variant=vi, kind=sp['kind'])
        self.judge_contract(ctx, sc, refv)
        sp = sc.get('sparse')
        if sp and sum(shape(ref)) > 0:
            # the same pipeline plus one row callable that returns a new, possibly empty row: step-by-step evaluation is held
            # against the row-step contract evaluated by hand, and the lazy run (flat / nested / conditional) against it
            sc2 = dict(sc, steps=sc['steps'] + [{k: v for k, v in sp.items() if k not in ('api', 'wrap')}])
            tail = {'flat': [n], 'nested': [[n]], 'cond': [{'cond': [n]}]}[sp.get('wrap', 'flat')]
            lz = ctx.subrun(_run_variant, {'sc': sc2, 'variant': {'segments': [list(range(n)) + tail], 'api': sp.get('api', 'datastream')}})
            sr = ctx.subrun(_run_variant, {'sc': sc2, 'variant': {'segments': [[]] + [[i] for i in range(n + 1)], 'api': 'datastream'}, 'contract': True})
            if sr['status'] == 'ok':
                ctx.probe('row-callable-returns-new-row')
                if sr['value']['empty_rows']:
                    ctx.probe('row-callable-returns-empty-row')
                self.judge_contract(ctx, sc2, sr['value'])
                if lz['status'] != 'ok':
                    ctx.violation('one-side-raises', 'variant-raises', 'step-by-step evaluation succeeds but the lazy run raises %s; steps=%s' % (
                        json.dumps(lz.get('exc'))[:400], json.dumps(sc2['steps'])[:600]), variant='sparse')
                want = sr['value']['cast'] if sp.get('api') == 'results' else sr['value']['rows']
                if want is not None and lz['value']['rows'] != want:
                    ctx.violation('schedule-equivalence:rows', 'differ', 'rows of the lazy run (%s, %s) differ from step-by-step evaluation at %s; steps=%s' % (
                        sp.get('wrap'), sp.get('api'), first_diff(lz['value']['rows'], want), json.dumps(sc2['steps'])[:600]), variant='sparse', api=sp.get('api'))
            elif lz['status'] == 'ok':
                ctx.violation('one-side-raises', 'serial-raises', 'serial (step-by-step) evaluation raises %s but the lazy run returns normally; steps=%s' % (
                    json.dumps(sr.get('exc'))[:300], json.dumps(sc2['steps'])[:600]), variant='sparse')
        if sc.get('again') and not any(('dump' in sp['step']) or sp['step'] in ('stream', 'unstream', 'checkpoint') for sp in sc['steps']):
            ctx.probe('second-evaluation-in-one-interpreter')
            ag = ctx.subrun(_run_variant, {'sc': sc, 'variant': {'segments': [list(range(n))], 'api': sc['again']}, 'twice': True})
            if ag['status'] != 'ok':
                ctx.violation('one-side-raises', 'second-evaluation-raises', 'step-by-step evaluation succeeds but the second lazy evaluation of the same chain in one interpreter '
                              '(fresh step objects and sources) raises %s; steps=%s' % (json.dumps(ag.get('exc'))[:400], json.dumps(sc['steps'])[:600]), variant='again')
            want = refv['cast'] if sc['again'] == 'results' else refv['rows']
            if ag['value']['dp'] != refv['dp'] or (want is not None and ag['value']['rows'] != want):
                ctx.violation('schedule-equivalence:history', 'differ', 'the second lazy evaluation of the same chain in one interpreter (fresh step objects and sources) differs from '
                              'step-by-step evaluation: %s; descriptor %s vs %s; steps=%s' % (first_diff(ag['value']['rows'], want) if want is not None else '-',
                                                                                       json.dumps(ag['value']['dp'])[:400], json.dumps(refv['dp'])[:400], json.dumps(sc['steps'])[:600]), variant='again')
        if pending:
            c, k, m, d = pending[0]
            ctx.violation(c, k, m, **d)
        if n >= 2 and sum(shape(ref)) > 0:
            ctx.nt([s['step'] for s in sc['steps']], [json.dumps(v) for v in sc['variants'][2:]])
        ctx.sample = {'sources': [len(t['rows']) for t in sc['tables']], 'steps': sc['steps'], 'variants': sc['variants']}

    def judge_contract(self, ctx, sc, refv):
        for c in refv.get('contract') or []:
            ctx.violation('link-without-effect', '%s:%s' % (c['param'], c['mode']), 'the output of user %s-callable (step %d, given as %s, mode %s) on the materialised output of the previous '
                          'step is not what the callable returned / yielded: %s; steps=%s' % (c['param'], c['step'], c['kind'], c['mode'], c['diff'], json.dumps(sc['steps'])[:600]),
                          kind=c['kind'], mode=c['mode'])

    def normalize(self, sc):
        if 'steps' not in sc:
            return sc
        n = len(sc['steps'])
        sc = dict(sc)
        vs = []
        for var in sc.get('variants', []):
            seen = set()

            def fix(tree):
                out = []
                for node in tree:
                    if isinstance(node, int):
                        if 0 <= node < n and node not in seen:
                            seen.add(node)
                            out.append(node)
                    elif isinstance(node, dict):
                        sub = fix(node.get('cond', []))
                        if sub:
                            out.append({'cond': sub})
                    elif isinstance(node, list):
                        sub = fix(node)
                        if sub:
                            out.append(sub)
                return out
            segs = [fix(s) if isinstance(s, list) else [] for s in var.get('segments', [])]
            missing = [i for i in range(n) if i not in seen]
            if missing:
                segs.append(missing)
            # order: indices must be increasing across the flattening; if not, fall back to flat
            flat = flatten(segs)
            if flat != sorted(flat):
                segs = [list(range(n))]
            vs.append({'segments': segs or [[]], 'api': var.get('api', 'results') if var.get('api') in APIS else 'results'})
        while len(vs) < 2:
            vs.append({'segments': [[]] + [[i] for i in range(n)], 'api': 'datastream'})
        vs[0] = {'segments': [list(range(n))], 'api': vs[0]['api']}
        vs[1] = {'segments': [[]] + [[i] for i in range(n)], 'api': 'datastream'}
        sc['variants'] = vs
        return sc

    def focus(self, sc, rec):
        ex = rec.get('extra') or {}
        if 'steps' not in sc and ex.get('expanded'):
            new = ex['expanded']
            vi = (rec.get('detail') or {}).get('variant')
            if isinstance(vi, int) and vi >= 2:
                new = dict(new)
                new['variants'] = new['variants'][:2] + [new['variants'][vi]]
            return new
        return None


def flatten(tree):
    out = []
    for node in tree:
        if isinstance(node, int):
            out.append(node)
        elif isinstance(node, dict):
            out.extend(flatten(node['cond']))
        else:
            out.extend(flatten(node))
    return out


def walk_probe(tree, depth, ctx):
    for node in tree:
        if isinstance(node, dict):
            ctx.probe('conditional-wrapped')
            walk_probe(node['cond'], depth + 1, ctx)
        elif isinstance(node, list):
            if depth + 1 >= 2:
                ctx.probe('nested-depth>=2')
            walk_probe(node, depth + 1, ctx)


def first_diff(a, b):
    if len(a) != len(b):
        return 'number of resources %d vs %d' % (len(a), len(b))
    for ri, (x, y) in enumerate(zip(a, b)):
        if len(x) != len(y):
            return 'resource %d: %d rows vs %d rows' % (ri, len(x), len(y))
        for i, (r1, r2) in enumerate(zip(x, y)):
            if r1 != r2:
                return 'resource %d row %d: %s vs %s' % (ri, i, json.dumps(r1)[:300], json.dumps(r2)[:300])
    return '?'


PROP = C01()


COUNTER_KEYS = ('bytes', 'hash', 'count_of_rows')


def strip_counters(dp):
    dp = copy.deepcopy(dp)
    for k in COUNTER_KEYS:
        dp.pop(k, None)
    for r in dp.get('resources', []):
        for k in COUNTER_KEYS:
            r.pop(k, None)
    return dp
