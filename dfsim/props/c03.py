"""C03 - a dumped data package loads back to the same typed data.

Two-run history over durable state: run 1 dumps (path | zip; csv | json; options); the scratch directory survives;
run 2 - a fresh process, possibly under a different TZ - (a) loads it back with load() and compares resources,
schema and typed values, and (b) decodes every data file with nothing but the stdlib csv / json modules and the
properties recorded in the written descriptor.
"""
import json
import os
import random

from ..core.prop import Prop
from ..gen import tables as T

TYPES = ['string', 'integer', 'number', 'boolean', 'date', 'time', 'datetime', 'year', 'array', 'object']
STRINGS = ['a', 'b c', 'é', 'זה', 'x,y', 'q"q', '"', "it's", 'line\nbreak', 'a\r\nb', '\U0001F600', 'tab\tx', '0', '-1', 'null', 'None', 'True', '1e3', 'NA', 'a;b', '\\', "'", '{}', '[1]', ' lead', 'trail ', ',', '""']


def gen_cell(rng, t, padded_ok):
    import datetime
    import decimal
    if rng.random() < 0.12:
        return None
    if t == 'string':
        s = rng.choice(STRINGS)
        if not padded_ok:
            s = s.strip() or 'a'
        return s
    if t == 'integer':
        return rng.choice([0, 1, -1, 42, -100, 2**31, -2**40, 10**15, rng.randrange(-1000, 1000)])
    if t == 'number':
        return rng.choice([decimal.Decimal('0'), decimal.Decimal('1.5'), decimal.Decimal('-2.25'), decimal.Decimal('3.14159265358979323846264338327950288'),
                           decimal.Decimal('1E+3'), decimal.Decimal('100'), decimal.Decimal('-0.000001'), decimal.Decimal('123456789012345678.123456789'),
                           decimal.Decimal(rng.randrange(-10**9, 10**9)) / 1000])
    if t == 'boolean':
        return rng.random() < 0.5
    if t == 'date':
        return datetime.date(rng.choice([1999, 2000, 2024, 1970, 476, 999, 1]), rng.randrange(1, 13), rng.randrange(1, 29))
    if t == 'time':
        return datetime.time(rng.randrange(24), rng.randrange(60), rng.randrange(60))
    if t == 'datetime':
        return datetime.datetime(rng.choice([1999, 2000, 2024, 1970, 476, 1]), rng.randrange(1, 13), rng.randrange(1, 29), rng.randrange(24), rng.randrange(60), rng.randrange(60))
    if t == 'year':
        return rng.choice([1, 476, 999, 1970, 2024])
    if t == 'array':
        return [rng.choice([1, 'x', None, 2.5, True, 'é', 'q"q', [1, 2]]) for _ in range(rng.randrange(0, 4))]
    if t == 'object':
        return {rng.choice(['b', 'a', 'é']): rng.choice([1, 'x', None, [1, 2], {'n': 1}, 'a,b']) for _ in range(rng.randrange(0, 3))}
    raise ValueError(t)


def _dump(payload, sub):
    from dataflows import Flow, load, dump_to_path, dump_to_zip
    tabs = payload['tables']
    resources, iters = [], []
    for t in tabs:
        fields = []
        for f in t['fields']:
            fd = {'name': f['name'], 'type': f['type']}
            if f.get('outputFormat'):
                fd['outputFormat'] = f['outputFormat']
            fd.update(f.get('lexical') or {})
            fields.append(fd)
        sch = {'fields': fields}
        if t.get('pk'):
            sch['primaryKey'] = t['pk']
        resources.append({'name': t['name'], 'path': t['name'] + '.csv', 'profile': 'tabular-data-resource', 'schema': sch})
        names = [f['name'] for f in t['fields']]
        order = t.get('key_order') or list(range(len(names)))
        rows = []
        for row in t['rows']:
            cells = [T.dec(c) for c in row]
            rows.append({names[i]: cells[i] for i in order})      # dict key order may differ from schema order
        iters.append(iter(rows))
    opts = dict(payload['opts'])
    if payload['target'] == 'path':
        d = dump_to_path('out', **opts)
    else:
        d = dump_to_zip('out.zip', **opts)
    links = [load(({'resources': resources}, iters), strip=False), d]
    if payload.get('post_edit'):
        # the flow goes on after the dumper and edits the rows in place: the package holds what *entered* the dumper
        import datetime
        import decimal

        def edit(row):
            for k, v in list(row.items()):
                if isinstance(v, bool):
                    row[k] = not v
                elif isinstance(v, str):
                    row[k] = v.upper() + '!'
                elif isinstance(v, (int, decimal.Decimal)):
                    row[k] = v + 1
                elif isinstance(v, list):
                    v.append('seen')
                elif isinstance(v, dict):
                    v['seen'] = 1
                elif isinstance(v, datetime.datetime):
                    row[k] = v + datetime.timedelta(days=1)
                elif isinstance(v, datetime.date):
                    row[k] = v + datetime.timedelta(days=1)
        links.append(edit)
    Flow(*links).process()
    return True


def _verify(payload, sub):
    """Fresh process, maybe another TZ: load() round trip + independent stdlib decode.  Returns a list of problems."""
    import csv
    import datetime
    import decimal
    import io
    import time as _time
    import zipfile
    if payload.get('tz'):
        os.environ['TZ'] = payload['tz']
        _time.tzset()
    from dataflows import Flow, load
    tabs = payload['tables']
    fmt = payload['opts'].get('format', 'csv')
    probs = []

    def norm(x):
        if isinstance(x, decimal.Decimal):
            return float(x)
        if isinstance(x, (list, tuple)):
            return [norm(y) for y in x]
        if isinstance(x, dict):
            return {str(k): norm(v) for k, v in x.items()}
        if isinstance(x, int) and not isinstance(x, bool):
            return float(x)
        return x

    def same(a, b, ftype):
        if a is None or b is None:
            return a is None and b is None
        if ftype == 'number':
            try:
                return float(a) == float(b) if fmt == 'json' else decimal.Decimal(a) == decimal.Decimal(b)
            except Exception:  # noqa
                return False
        if ftype in ('array', 'object'):
            return json.dumps(norm(a), sort_keys=True) == json.dumps(norm(b), sort_keys=True)
        return a == b and type(a) is type(b)

    expected = []
    for t in tabs:
        names = [f['name'] for f in t['fields']]
        expected.append([dict(zip(names, [T.dec(c) for c in row])) for row in t['rows']])

    # ---- (a) load() round trip
    padded = payload.get('padded')
    kw = {'strip': False} if padded else {}
    try:
        if payload['target'] == 'path':
            rows, dp, _ = Flow(load('out/datapackage.json', **kw)).results()
        else:
            rows, dp, _ = Flow(load('out.zip', format='datapackage', **kw)).results()
    except Exception as e:  # noqa
        cause = getattr(e, 'cause', e)
        probs.append(['load-raised', type(cause).__name__, 'load() of the dumped package raised %s: %s' % (type(cause).__name__, str(e)[:300])])
        rows, dp = None, None
    if rows is not None:
        got_names = [r.name for r in dp.resources]
        if got_names != [t['name'] for t in tabs]:
            probs.append(['roundtrip:resources', 'names', 'loaded resources %r, dumped %r' % (got_names, [t['name'] for t in tabs])])
        else:
            for t, res, got, exp in zip(tabs, dp.resources, rows, expected):
                sch = res.descriptor['schema']
                gf = [(f['name'], f['type']) for f in sch['fields']]
                ef = [(f['name'], f['type']) for f in t['fields']]
                if gf != ef:
                    probs.append(['roundtrip:schema', 'fields', 'resource %s: loaded fields %r, dumped %r' % (t['name'], gf, ef)])
                    continue
                if (sch.get('primaryKey') or []) != (t.get('pk') or []):
                    probs.append(['roundtrip:primary-key', 'pk', 'resource %s: loaded primaryKey %r, dumped %r' % (t['name'], sch.get('primaryKey'), t.get('pk'))])
                if len(got) != len(exp):
                    probs.append(['roundtrip:values', 'rowcount', 'resource %s: loaded %d rows, dumped %d' % (t['name'], len(got), len(exp))])
                    continue
                for ri, (g, e) in enumerate(zip(got, exp)):
                    for name, ftype in ef:
                        if not same(g.get(name), e.get(name), ftype):
                            crlf = isinstance(e.get(name), str) and isinstance(g.get(name), str) and '\r\n' in e[name] and g[name] == e[name].replace('\r\n', '\n')
                            probs.append(['roundtrip:values', ftype, 'resource %s row %d field %s (%s): loaded %r, dumped %r' % (t['name'], ri, name, ftype, g.get(name), e.get(name)),
                                          {'crlf_to_lf': crlf, 'resource': t['name']}])
                            break
                    if probs:
                        break

    # ---- (b) independent decode with the stdlib only, driven by the written descriptor
    try:
        if payload['target'] == 'path':
            def rd(p):
                with open(os.path.join('out', p), 'rb') as f:
                    return f.read()
        else:
            z = zipfile.ZipFile('out.zip')

            def rd(p):
                return z.read(p)
        desc = json.loads(rd('datapackage.json').decode('utf-8'))
        for t, res, exp in zip(tabs, desc['resources'], expected):
            path = res['path'] if not isinstance(res['path'], list) else res['path'][0]
            text = rd(path).decode(res.get('encoding', 'utf-8'))
            sch = res['schema']
            missing = sch.get('missingValues', [''])
            fields = sch['fields']

            def conv(cell, f, from_json):
                ft = f['type']
                if cell is None:
                    return None
                if isinstance(cell, str) and cell in missing and (not from_json or True):
                    if not from_json or ft != 'string' or cell in missing:
                        return None
                if ft == 'string':
                    return cell
                if ft in ('integer', 'year'):
                    return int(cell)
                if ft == 'number':
                    if from_json:
                        return cell
                    s = str(cell).replace(f.get('groupChar', '') or '\0', '').replace(f.get('decimalChar', '.'), '.')
                    return decimal.Decimal(s)
                if ft == 'boolean':
                    if from_json:
                        return cell
                    if cell in f.get('trueValues', ['true', 'True', 'TRUE', '1']):
                        return True
                    if cell in f.get('falseValues', ['false', 'False', 'FALSE', '0']):
                        return False
                    raise ValueError('boolean %r' % cell)
                if ft == 'date':
                    return datetime.datetime.strptime(cell, f['format']).date()
                if ft == 'time':
                    return datetime.datetime.strptime(cell, f['format']).time()
                if ft == 'datetime':
                    return datetime.datetime.strptime(cell, f['format'])
                if ft in ('array', 'object'):
                    return cell if from_json else json.loads(cell)
                return cell
            if res.get('format') == 'json':
                data = json.loads(text)
                dec_rows = [{f['name']: conv(item.get(f['name']), f, True) for f in fields} for item in data]
            else:
                dia = res.get('dialect', {})
                rdr = csv.reader(io.StringIO(text, newline=''), delimiter=dia.get('delimiter', ','), quotechar=dia.get('quoteChar', '"'),
                                 doublequote=dia.get('doubleQuote', True), skipinitialspace=dia.get('skipInitialSpace', False),
                                 lineterminator=dia.get('lineTerminator', '\r\n'))
                allrows = list(rdr)
                header = allrows[0] if allrows else []
                if header != [f['name'] for f in fields]:
                    probs.append(['independent-decode:values', 'header', 'resource %s: csv header %r, descriptor fields %r' % (t['name'], header, [f['name'] for f in fields])])
                    continue
                dec_rows = [{f['name']: conv(c, f, False) for f, c in zip(fields, r)} for r in allrows[1:]]
            if len(dec_rows) != len(exp):
                probs.append(['independent-decode:values', 'rowcount', 'resource %s: file decodes to %d rows, dumped %d' % (t['name'], len(dec_rows), len(exp))])
                continue
            bad = False
            for ri, (g, e) in enumerate(zip(dec_rows, exp)):
                for f in fields:
                    if not same(g.get(f['name']), e.get(f['name']), f['type']):
                        probs.append(['independent-decode:values', f['type'], 'resource %s row %d field %s (%s): file decodes to %r, dumped %r' % (
                            t['name'], ri, f['name'], f['type'], g.get(f['name']), e.get(f['name']))])
                        bad = True
                        break
                if bad:
                    break
    except Exception as e:  # noqa
        probs.append(['independent-decode:values', 'undecodable:' + type(e).__name__, 'the written files cannot be decoded with the recorded properties: %s: %s' % (type(e).__name__, str(e)[:300])])
    return probs


class C03(Prop):
    ID = 'C03'
    TITLE = 'A dumped data package loads back to the same typed data'
    LEVEL = 'exploration'
    TECHNIQUE = 'deterministic simulation of a dump/restart/load history over durable state, second process under a seeded ambient TZ; load() round trip + independent stdlib decode driven by the written descriptor'
    SIMTIME_UNIT = 'dump + verify process pairs'
    RULE = ('one evaluation = 1-3 resources over string/integer/number/boolean/date/time/datetime/year/array/object fields (nulls, negatives, high-precision decimals, quotes, delimiters, '
            'newlines, CRLF, non-BMP unicode, years < 1000, non-alphabetical field order, row dict key order != schema order, primary keys) x csv|json x path|zip x add_filehash_to_path x '
            'temporal_format_property, dumped in one process and verified in another (TZ drawn per run). Non-trivial = at least one non-null cell; distinct = distinct (format, target, options, field types).')
    ASSUMPTIONS = ['the empty string is excluded (CSV cannot distinguish it from null under missingValues [""])', 'strings with surrounding whitespace are read back with load(strip=False)',
                   'custom temporal formats are combined only with years >= 1000 (platform strftime does not pad %Y)', 'JSON numbers are compared at double precision, CSV numbers as Decimals',
                   'zone-aware datetimes are outside the csv/json temporal formats and are not generated']
    REAL_VS_STUB = {'real': ['dataflows dumpers + load, tabulator, tableschema, datapackage, zipfile, the file system'], 'stub': ['process environment (TZ) of the verifying process']}
    PROBES = ['incoming-lexical-properties', 'json-format', 'zip-target', 'filehash-in-path', 'temporal-format-property', 'non-alphabetical-fields', 'row-key-order-differs', 'year-below-1000', 'newline-in-cell',
              'non-bmp-unicode', 'high-precision-decimal', 'primary-key', 'padded-string', 'multi-resource', 'rows-edited-after-the-dumper']
    TIERS = {'quick': dict(runs=700, wall=100, run_wall=300),
             'thorough': dict(runs=25000, wall=1700, run_wall=600)}
    SHRINK_FROZEN = ('fields',)

    def generate(self, rng, tier):
        ntab = rng.choice([1, 1, 2, 3])
        custom_fmt = rng.random() < 0.2
        padded = rng.random() < 0.3
        tabs = []
        for i in range(ntab):
            k = rng.randrange(1, 6)
            types = [rng.choice(TYPES) for _ in range(k)]
            names = ['%s%s' % (rng.choice('zyxwcba'), j) for j in range(k)]      # deliberately not alphabetical
            fields = [{'name': n, 'type': t} for n, t in zip(names, types)]
            fields.insert(rng.randrange(len(fields) + 1), {'name': 'id', 'type': 'integer'})
            if custom_fmt:
                for f in fields:
                    if f['type'] == 'date':
                        f['outputFormat'] = rng.choice(['%d/%m/%Y', '%Y%m%d'])
                    if f['type'] == 'datetime':
                        f['outputFormat'] = '%d.%m.%Y %H:%M:%S'
                    if f['type'] == 'time':
                        f['outputFormat'] = '%H.%M.%S'
            if rng.random() < 0.25:
                # the incoming descriptor says how its *source* spelled the values; the written one must say how the dumper did
                for f in fields:
                    lex = {'boolean': {'trueValues': ['yes'], 'falseValues': ['no']}, 'number': {'decimalChar': ',', 'groupChar': '.'},
                           'date': {'format': '%d/%m/%Y'}, 'datetime': {'format': '%d.%m.%Y %H:%M'}, 'time': {'format': '%H.%M'}}.get(f['type'])
                    if lex and rng.random() < 0.7:
                        f['lexical'] = lex
            n = rng.choice([0, 1, 2, 3, 8])
            rows = []
            for r in range(n):
                row = []
                for f in fields:
                    if f['name'] == 'id':
                        row.append(r)
                    else:
                        v = gen_cell(rng, f['type'], padded)
                        if custom_fmt and f['type'] in ('date', 'datetime') and v is not None and v.year < 1000:
                            v = v.replace(year=2001)
                        row.append(T.enc(v))
                rows.append(row)
            t = {'name': 'res_%d' % (i + 1), 'fields': fields, 'rows': rows}
            if rng.random() < 0.3:
                t['pk'] = ['id']
            if rng.random() < 0.3:
                order = list(range(len(fields)))
                rng.shuffle(order)
                t['key_order'] = order
            tabs.append(t)
        opts = {'format': rng.choice(['csv', 'csv', 'json'])}
        if opts['format'] == 'json' and rng.random() < 0.85:
            # known finding C03-json-field-order: keep exploring with alphabetical field names in most json scenarios
            for t in tabs:
                names = sorted(f['name'] for f in t['fields'])
                order = sorted(range(len(names)), key=lambda i: t['fields'][i]['name'])
                t['fields'] = [t['fields'][i] for i in order]
                t['rows'] = [[row[i] for i in order] for row in t['rows']]
                t.pop('key_order', None)
        if rng.random() < 0.9:
            # known finding C03-crlf-in-csv-cell: rare
            for t in tabs:
                t['rows'] = [[(c.replace('\r\n', '\n') if isinstance(c, str) else c) for c in row] for row in t['rows']]
        if rng.random() < 0.25:
            opts['add_filehash_to_path'] = True
        if custom_fmt:
            opts['temporal_format_property'] = 'outputFormat'
        return {'tables': tabs, 'opts': opts, 'target': rng.choice(['path', 'path', 'zip']), 'padded': padded, 'post_edit': rng.random() < 0.3,
                'tz': rng.choice([None, 'UTC', 'America/New_York', 'Asia/Kolkata', 'Pacific/Chatham'])}

    def execute(self, sc, ctx):
        if not sc.get('tables'):
            ctx.discard('no tables')
        opts = sc.get('opts') or {}
        self._probes(sc, ctx)
        d = os.path.join(ctx.scratch, 'w')
        os.makedirs(d)
        os.chdir(d)
        payload = {'tables': sc['tables'], 'opts': opts, 'target': sc.get('target', 'path'), 'padded': sc.get('padded'), 'tz': sc.get('tz'), 'post_edit': sc.get('post_edit')}
        r = ctx.subrun(_dump, payload)
        desc = 'target=%s opts=%s fields=%s' % (payload['target'], json.dumps(opts), json.dumps([[(f['name'], f['type']) for f in t['fields']] for t in sc['tables']])[:500])
        if r['status'] != 'ok':
            ctx.violation('dump-raised', (r['exc'].get('cause') or r['exc'])['type'], 'dumping well-typed data raised %s; %s' % (json.dumps(r['exc'])[:400], desc))
        v = ctx.subrun(_verify, payload)
        if v['status'] != 'ok':
            from ..core.ctx import HarnessError
            raise HarnessError('verify sub-run failed: %s' % json.dumps(v)[:600])
        probs = v['value']
        if any(c is not None for t in sc['tables'] for row in t['rows'] for c in row):
            ctx.nt(opts.get('format'), payload['target'], opts.get('add_filehash_to_path'), opts.get('temporal_format_property'), sorted(set(f['type'] for t in sc['tables'] for f in t['fields'])))
        ctx.sample = {'fields': [[(f['name'], f['type']) for f in t['fields']] for t in sc['tables']], 'rows': [len(t['rows']) for t in sc['tables']], 'opts': opts,
                      'target': payload['target'], 'tz': sc.get('tz')}
        if probs:
            nonalpha = opts.get('format') == 'json' and any(t['rows'] and [f['name'] for f in t['fields']] != sorted(f['name'] for f in t['fields']) for t in sc['tables'])

            def knownish(p):
                d = p[3] if len(p) > 3 else {}
                return bool(d.get('crlf_to_lf')) or (nonalpha and p[0] in ('load-raised', 'roundtrip:values'))
            probs.sort(key=knownish)        # anything that is not one of the two known findings is reported first
            p = probs[0]
            d = dict(p[3]) if len(p) > 3 else {}
            d['json_nonalphabetical'] = bool(nonalpha)
            ctx.violation(p[0], p[1], p[2] + '; ' + desc, **d)

    def _probes(self, sc, ctx):
        opts = sc.get('opts') or {}
        if opts.get('format') == 'json':
            ctx.probe('json-format')
        if any(f.get('lexical') for t in sc['tables'] for f in t['fields']):
            ctx.probe('incoming-lexical-properties')
        if sc.get('target') == 'zip':
            ctx.probe('zip-target')
        if opts.get('add_filehash_to_path'):
            ctx.probe('filehash-in-path')
        if opts.get('temporal_format_property'):
            ctx.probe('temporal-format-property')
        if sc.get('padded'):
            ctx.probe('padded-string')
        if sc.get('post_edit'):
            ctx.probe('rows-edited-after-the-dumper')
        if len(sc['tables']) > 1:
            ctx.probe('multi-resource')
        for t in sc['tables']:
            names = [f['name'] for f in t['fields']]
            if names != sorted(names):
                ctx.probe('non-alphabetical-fields')
            if t.get('key_order') and t['key_order'] != sorted(t['key_order']):
                ctx.probe('row-key-order-differs')
            if t.get('pk'):
                ctx.probe('primary-key')
            for row in t['rows']:
                for c in row:
                    if isinstance(c, str):
                        if '\n' in c:
                            ctx.probe('newline-in-cell')
                        if any(ord(ch) > 0xFFFF for ch in c):
                            ctx.probe('non-bmp-unicode')
                    if isinstance(c, dict):
                        if ('dt' in c and c['dt'][:2] == '00') or ('date' in c and c['date'][:2] == '00'):
                            ctx.probe('year-below-1000')
                        if 'd' in c and len(c['d']) > 18:
                            ctx.probe('high-precision-decimal')


PROP = C03()
