"""C06 - row-wise pipelines stream with bounded look-ahead.

Counting sources and a recording sink are the seam; the oracle is an invariant over the pull/deliver history:
at every delivery, (rows pulled from all sources so far) - (source rows the delivered row accounts for) must stay
below  sum_j min(N_j, SAMPLE_SIZE) + C  with C = 4096, for stream lengths N >= 5*C, so that a step that
materialises its input exceeds the bound several times over while any fixed write batch stays far below it.
"""
import json
import os
import random
import sys

from ..core.prop import Prop
from ..gen import pipelines as PL
from ..gen import steps as ST
from ..gen import tables as T

C_SLACK = 4096
STREAM_KINDS = ['add_field', 'add_computed_field', 'delete_fields', 'select_fields', 'rename_fields', 'find_replace', 'set_type', 'validate',
                'filter_rows', 'unpivot', 'concatenate', 'printer', 'dump_to_path', 'dump_to_zip', 'stream', 'checkpoint', 'user',
                'update_resource', 'update_schema', 'update_package', 'set_primary_key', 'finalizer', 'update_stats']
COLS = [('i0', 'integer'), ('i1', 'integer'), ('s2', 'string'), ('s3', 'string'), ('b4', 'boolean')]


def row_of(cols, null_col, base, i):
    r = {'_id': base + i}
    for name, t in cols:
        if t == 'integer':
            r[name] = (i * 7 + len(name)) % 11 if (i % 13 or i == 0) else None
        elif t == 'string':
            r[name] = 'w%d' % (i % 5) if (i % 17 or i == 0) else None
        else:
            r[name] = (i % 3 == 0)
    if null_col:
        r['z9'] = None
    return r


def small_table(spec, base, n):
    fields = [{'name': '_id', 'type': 'integer'}] + [{'name': c, 'type': t} for c, t in spec['cols']] + ([{'name': 'z9', 'type': 'any'}] if spec.get('null_col') else [])
    names = [f['name'] for f in fields]
    rows = []
    for i in range(n):
        r = row_of(spec['cols'], spec.get('null_col'), base, i)
        rows.append([T.enc(r[k]) for k in names])
    return {'name': 'x', 'fields': fields, 'rows': rows}


def _expand(payload, sub):
    rng = random.Random(payload['gseed'])
    srcs = []
    for j in range(payload['nsrc']):
        k = rng.randrange(1, 5)
        cols = sorted(rng.sample(COLS, k), key=lambda c: c[0])
        srcs.append({'cols': [list(c) for c in cols], 'null_col': rng.random() < 0.3, 'kind': rng.choice(['iterable', 'iterable', 'load_tuple', 'package'])})
        if srcs[-1]['kind'] == 'load_tuple' and rng.random() < 0.4:
            srcs[-1]['limit_rows'] = rng.choice([20, 1000, payload['N'] // 4])
    bases, b = [], 0
    for s in srcs:
        bases.append(b)
        b += payload['N']
    tables = [small_table(s, bases[j], 120) for j, s in enumerate(srcs)]
    for j, t in enumerate(tables):
        t['name'] = 'res_%d' % (j + 1)
    stats = {}
    sc = PL.gen_pipeline(rng, tables, payload['nsteps'], exclude=[k for k in ST.GENS if k not in STREAM_KINDS], stats=stats)
    for sp in sc['steps']:
        if sp['step'] in ('dump_to_path', 'dump_to_zip') and rng.random() < 0.25:
            sp['format'] = 'excel'          # the workbook is only saved at the end of a resource: the rows must stream through nevertheless
    return {'sources': srcs, 'steps': sc['steps'], 'N': payload['N'], 'sample_size': payload['sample_size'], 'gen_stats': stats,
            'head': payload.get('head'), 'bad_row': payload.get('bad_row'), 'rerun': payload.get('rerun')}


def _run(payload, sub):
    import dataflows as DF
    sc = payload
    N = sc['N']
    il = sys.modules['dataflows.helpers.iterable_loader']
    if sc.get('sample_size'):
        il.iterable_storage.SAMPLE_SIZE = sc['sample_size']
    nsrc = len(sc['sources'])
    pulled = [0] * nsrc
    state = {'maxL': 0, 'at': None, 'delivered': 0, 'early': 0, 'early_at': None, 'last_done': -1}
    sample = sc.get('sample_size') or 100
    bad_row = sc.get('bad_row')
    head = sc.get('head')

    def gen(j, spec):
        cols = [tuple(c) for c in spec['cols']]
        base = j * N
        nc = spec.get('null_col')
        for i in range(N):
            pulled[j] += 1
            row = row_of(cols, nc, base, i)
            if bad_row is not None and j == 0 and i == bad_row:
                row['_id'] = 'not-an-integer'
            yield row

    links = []
    env = {'calls': {}}
    track = {}

    def refresh():
        # sources that are files: rows pulled = data lines that end before the furthest position read so far
        import bisect
        for j, tr in track.items():
            pulled[j] = bisect.bisect_right(tr['offsets'], tr['maxpos'])
    if any(spec['kind'] == 'package' for spec in sc['sources']):
        import io
        import types
        import tabulator.loaders.local as tll
        real_io = io

        class CountingRaw(io.FileIO):
            tr = None

            def readinto(self, b):
                n = super().readinto(b)
                self.tr['maxpos'] = max(self.tr['maxpos'], self.tell())
                return n

            def read(self, size=-1):
                data = super().read(size)
                self.tr['maxpos'] = max(self.tr['maxpos'], self.tell())
                return data

            def readall(self):
                data = super().readall()
                self.tr['maxpos'] = max(self.tr['maxpos'], self.tell())
                return data

        def counting_open(source, mode='r', *a, **kw):
            key = os.path.realpath(source)
            for tr in track.values():
                if tr['path'] == key and mode == 'rb':
                    raw = CountingRaw(source, 'r')
                    raw.tr = tr
                    tr['opens'] += 1
                    return real_io.BufferedReader(raw)
            return real_io.open(source, mode, *a, **kw)
        ns = types.SimpleNamespace(**{k: getattr(io, k) for k in dir(io) if not k.startswith('__')})
        ns.open = counting_open
        tll.io = ns
    for j, spec in enumerate(sc['sources']):
        if spec['kind'] == 'iterable':
            links.append(gen(j, spec))
        elif spec['kind'] == 'package':
            # a data package on disk: N data lines in a CSV file, read through tabulator's local loader
            d = 'src%d' % j
            os.makedirs(d, exist_ok=True)
            cols = [tuple(c) for c in spec['cols']]
            names = ['_id'] + [c for c, t in cols] + (['z9'] if spec.get('null_col') else [])
            offsets = []
            pos = 0
            with open(os.path.join(d, 'data.csv'), 'wb') as f:
                hdr = (','.join(names) + '\r\n').encode()
                f.write(hdr)
                pos += len(hdr)
                chunk = []
                for i in range(N):
                    row = row_of(cols, spec.get('null_col'), j * N, i)
                    if bad_row is not None and j == 0 and i == bad_row:
                        row['_id'] = 'not-an-integer'
                    line = (','.join('' if row[k] is None else str(row[k]) for k in names) + '\r\n').encode()
                    pos += len(line)
                    offsets.append(pos)
                    chunk.append(line)
                    if len(chunk) >= 4096:
                        f.write(b''.join(chunk))
                        chunk = []
                f.write(b''.join(chunk))
            desc = {'name': 'pkg%d' % j, 'resources': [{'name': 'res_%d' % (j + 1), 'path': 'data.csv', 'format': 'csv', 'profile': 'tabular-data-resource',
                                                       'schema': {'fields': [{'name': '_id', 'type': 'integer'}] + [{'name': c, 'type': t} for c, t in spec['cols']] +
                                                                  ([{'name': 'z9', 'type': 'any'}] if spec.get('null_col') else [])}}]}
            with open(os.path.join(d, 'datapackage.json'), 'w') as f:
                json.dump(desc, f)
            track[j] = {'offsets': offsets, 'maxpos': 0, 'path': os.path.realpath(os.path.join(d, 'data.csv')), 'opens': 0}
            links.append(DF.load(os.path.join(d, 'datapackage.json')))
        else:
            desc = {'resources': [{'name': 'res_%d' % (j + 1), 'path': 'res_%d.csv' % (j + 1), 'profile': 'tabular-data-resource',
                                   'schema': {'fields': [{'name': '_id', 'type': 'integer'}] + [{'name': c, 'type': t} for c, t in spec['cols']] +
                                              ([{'name': 'z9', 'type': 'any'}] if spec.get('null_col') else [])}}]}
            if spec.get('limit_rows'):
                # load(..., limit_rows=k): k rows are delivered, and the rest of the source is not read to the end
                links.append(DF.load((desc, [gen(j, spec)]), limit_rows=spec['limit_rows']))
            else:
                links.append(DF.load((desc, [gen(j, spec)])))
    for sp in sc['steps']:
        links.extend(ST.build(sp, env))

    def sink(rows):
        for row in rows:
            rid = row.get('_id')
            if rid is not None:
                if track:
                    refresh()
                j = rid // N
                consumed = rid + 1            # all rows of sources < j, plus (rid - j*N + 1) rows of source j
                for jj in range(j):
                    lim = sc['sources'][jj].get('limit_rows')
                    if lim:
                        consumed -= N - min(N, lim)      # a limited source only ever hands over its first k rows
                tot = 0
                for x in pulled:
                    tot += x
                L = tot - consumed
                if L > state['maxL']:
                    state['maxL'] = L
                    state['at'] = [rid, list(pulled)]
                # rows of later sources pulled beyond their inference sample while source j is still being delivered
                for jj in range(j + 1, nsrc):
                    e = pulled[jj] - min(N, sample if sc['sources'][jj]['kind'] == 'iterable' else 0)
                    if e > state['early']:
                        state['early'] = e
                        state['early_at'] = [rid, list(pulled)]
                state['delivered'] += 1
            yield row
    if bad_row is not None:
        links.append(DF.validate())
    if head:
        nres = {'n': -1}

        def head_step(rows):
            nres['n'] += 1
            it = iter(rows)
            last = rows.res.name == state['last_name']
            if not last:
                yield from it
                return
            for k, row in enumerate(it):
                if k >= head:
                    break
                yield row
            refresh()
            state['stopped_at'] = sum(pulled)
        links.append(head_step)
    links.append(sink)
    flow = DF.Flow(*links)
    failed = None
    try:
        if head:
            ds = flow.datastream()
            state['last_name'] = ds.dp.resources[-1].name
            import collections
            for r in ds.res_iter:
                collections.deque(r, maxlen=0)
        else:
            flow.process()
    except Exception as e:  # noqa
        if bad_row is None:
            raise
        failed = type(getattr(e, 'cause', e)).__name__
    state['failed'] = failed
    refresh()
    state['pulled_end'] = sum(pulled)
    sub.count('rows_pulled', sum(pulled))
    sub.count('rows_delivered', state['delivered'])
    return dict(state, pulled=list(pulled))


class C06(Prop):
    ID = 'C06'
    TITLE = 'Row-wise pipelines stream with bounded look-ahead'
    LEVEL = 'exploration'
    TECHNIQUE = 'deterministic simulation at the source/sink seam: counting sources + recording sink, invariant over the pull/deliver event history, SAMPLE_SIZE knob'
    SIMTIME_UNIT = 'rows pulled from the sources / rows delivered at the sink'
    RULE = ('one evaluation = 1-3 counting sources of N rows each (generators through schema inference, load((descriptor, iterators)) without inference, or a data package on disk whose CSV file is read through a position-recording raw file; optional always-null column), '
            'a seeded pipeline of 1-8 non-buffering steps (field edits, set_type/validate, filter_rows, unpivot, concatenate, printer, file dumpers, stream, first-run checkpoint, user '
            'row/rows functions, metadata steps), the inference sample size drawn from {1, 5, 100, 200}; N = 20480 (quick) or 20480 / 100000 (thorough). At every delivered row '
            'L = pulled - consumed is recorded. Non-trivial = at least N/2 rows were delivered; distinct = distinct (step kinds, source kinds, sample size).')
    ASSUMPTIONS = ['C = 4096 rows of slack on top of the inference samples: any fixed write batch in dataflows or its dependencies (largest constant: 1000) stays below it, a step that materialises N >= 20480 rows does not',
                   'look-ahead is only defined at deliveries: a pipeline whose filter drops every row cannot refute the property']
    REAL_VS_STUB = {'real': ['all dataflows code of the pipeline, tabulator/tableschema iteration'], 'stub': ['counting generator sources', 'recording rows-function sink']}
    PROBES = ['unpivot-in-pipeline', 'concatenate-in-pipeline', 'dumper-in-pipeline', 'checkpoint-in-pipeline', 'filter-in-pipeline', 'null-column-source', 'load-tuple-source',
              'multi-source', 'sample-size-knob', 'N=100000', 'consumer-stops-early', 'run-fails-mid-stream', 'second-run-into-the-same-directory', 'data-package-on-disk-source', 'excel-dumper-in-pipeline', 'load-with-limit-rows']
    TIERS = {'quick': dict(runs=400, wall=110, run_wall=200),
             'thorough': dict(runs=6000, wall=1700, run_wall=900)}
    SHRINK_FROZEN = ('cols', 'gen_stats')

    def generate(self, rng, tier):
        N = 20480
        if tier == 'thorough' and rng.random() < 0.15:
            N = 100000
        nsrc = rng.choice([1, 1, 2, 2, 3])
        sc = {'gseed': rng.randrange(2**62), 'nsrc': nsrc, 'nsteps': rng.choice([1, 2, 3, 4, 6, 8]), 'N': N if nsrc < 3 else 20480,
              'sample_size': rng.choice([None, None, 1, 5, 100, 200])}
        r = rng.random()
        if r < 0.12:
            sc['head'] = rng.choice([10, 1000])          # the consumer stops reading the last resource after k rows
        elif r < 0.24:
            sc['bad_row'] = rng.choice([500, 5000])
        elif r < 0.36:
            sc['rerun'] = True      # an uncastable value arrives mid-stream and fails the run (validate appended)
        return sc

    def execute(self, sc, ctx):
        if 'steps' not in sc:
            r = ctx.subrun(_expand, sc)
            if r['status'] != 'ok':
                ctx.discard('generation failed: %s' % json.dumps(r.get('exc'))[:300])
            sc = r['value']
            ctx.extra['expanded'] = sc
        N = sc['N']
        kinds = [sp['step'] for sp in sc['steps']]
        for k, p in (('unpivot', 'unpivot-in-pipeline'), ('concatenate', 'concatenate-in-pipeline'), ('checkpoint', 'checkpoint-in-pipeline'), ('filter_rows', 'filter-in-pipeline')):
            if k in kinds:
                ctx.probe(p)
        if any(k in kinds for k in ('dump_to_path', 'dump_to_zip', 'stream')):
            ctx.probe('dumper-in-pipeline')
        if any(s.get('null_col') for s in sc['sources']):
            ctx.probe('null-column-source')
        if any(s['kind'] == 'load_tuple' for s in sc['sources']):
            ctx.probe('load-tuple-source')
        if any(s['kind'] == 'package' for s in sc['sources']):
            ctx.probe('data-package-on-disk-source')
        if any(sp.get('format') == 'excel' for sp in sc['steps']):
            ctx.probe('excel-dumper-in-pipeline')
        if len(sc['sources']) > 1:
            ctx.probe('multi-source')
        if sc.get('sample_size'):
            ctx.probe('sample-size-knob')
        if N >= 100000:
            ctx.probe('N=100000')
        d = os.path.join(ctx.scratch, 'w')
        os.makedirs(d)
        os.chdir(d)
        if sc.get('rerun'):
            # the same pipeline has already run once in this directory (its dumps / streams exist): measure the second run
            ctx.probe('second-run-into-the-same-directory')
            first = ctx.subrun(_run, dict(sc, steps=[sp for sp in sc['steps'] if sp['step'] != 'checkpoint']), wall=600)
            if first['status'] != 'ok':
                ctx.discard('first run raises')
            sc = dict(sc, steps=[sp for sp in sc['steps'] if sp['step'] != 'checkpoint'])
        r = ctx.subrun(_run, sc, wall=600)
        if r['status'] != 'ok':
            ctx.discard('pipeline raises (ill-typed under this sample size): %s' % json.dumps(r.get('exc'))[:300])
        v = r['value']
        sample = sc.get('sample_size') or 100
        bound = sum(min(N, sample) if s['kind'] == 'iterable' else 0 for s in sc['sources']) + C_SLACK
        ctx.sample = {'N': N, 'sources': sc['sources'], 'steps': sc['steps'], 'sample_size': sc.get('sample_size'), 'max_lookahead': v['maxL'], 'bound': bound,
                      'delivered': v['delivered']}
        if v['maxL'] > bound:
            ctx.violation('lookahead:bound', 'exceeded', 'max look-ahead %d rows exceeds the bound %d (= inference samples + %d) at delivery of row id %r with pulls %r; N=%d per source; steps=%s' % (
                v['maxL'], bound, C_SLACK, v['at'][0], v['at'][1], N, json.dumps(sc['steps'])[:700]), maxL=v['maxL'], N=N)
        for j, sp_ in enumerate(sc['sources']):
            if sp_.get('limit_rows'):
                ctx.probe('load-with-limit-rows')
                if v['pulled'][j] > sp_['limit_rows'] + C_SLACK:
                    ctx.violation('lookahead:bound', 'beyond-limit', 'load(limit_rows=%d) delivered its rows but %d rows of that source were read (N=%d); steps=%s' % (
                        sp_['limit_rows'], v['pulled'][j], N, json.dumps(sc['steps'])[:500]), N=N)
        if v['early'] > C_SLACK:
            ctx.violation('next-source-pulled-early', 'exceeded', '%d rows of a later source were pulled (beyond its inference sample) while an earlier source was still being delivered (row id %r, pulls %r); steps=%s' % (
                v['early'], v['early_at'][0], v['early_at'][1], json.dumps(sc['steps'])[:700]), early=v['early'], N=N)
        if sc.get('head'):
            ctx.probe('consumer-stops-early')
            if v.get('stopped_at') is not None and v['pulled_end'] - v['stopped_at'] > C_SLACK:
                ctx.violation('pulled-after-consumer-stopped', 'drain', 'after the consumer stopped reading the last resource (%d rows in), %d more source rows were pulled (total %d of %d); steps=%s' % (
                    sc['head'], v['pulled_end'] - v['stopped_at'], v['pulled_end'], N * len(sc['sources']), json.dumps(sc['steps'])[:600]), N=N)
            if v.get('stopped_at') is not None:
                ctx.nt('head', kinds, [s['kind'] for s in sc['sources']], sc.get('sample_size'))
        if sc.get('bad_row') is not None:
            ctx.probe('run-fails-mid-stream')
            if v.get('failed'):
                ahead = v['pulled_end'] - (sc['bad_row'] + 1)
                if ahead > bound:
                    ctx.violation('lookahead:bound', 'at-failure', 'the run failed at source row %d but %d rows had been pulled by then (%d beyond the failing row, bound %d); steps=%s' % (
                        sc['bad_row'], v['pulled_end'], ahead, bound, json.dumps(sc['steps'])[:600]), N=N)
                ctx.nt('bad-row', kinds, sc.get('sample_size'))
        if v['delivered'] >= N // 2:
            ctx.nt(kinds, [s['kind'] for s in sc['sources']], sc.get('sample_size'))
        ctx.count('max_lookahead_seen', 0)

    def extra_coverage(self, recs):
        mx = 0
        for r in recs:
            s = r.get('sample') or {}
            mx = max(mx, s.get('max_lookahead') or 0)
        return {'max_lookahead_observed': mx}

    def focus(self, sc, rec):
        ex = rec.get('extra') or {}
        if 'steps' not in sc and ex.get('expanded'):
            return ex['expanded']
        return None


PROP = C06()
