"""C04 - a failing step never yields a successful run.

Exactly one fault per run, injected into a generated pipeline (or into a parallelize pipeline running under the
seam-B scheduler): a tripwire step raising in the package phase / at a row / at exhaustion / after the last
resource, a source raising after k rows, an I/O error at a file-system seam op, a KVFile error.  Oracle (only if
the injector reports that the fault fired): the run raised ProcessorError carrying the injected instance as cause;
nothing positioned after the failure committed a descriptor or a checkpoint.
"""
import json
import os
import random
import sys
import zipfile

from ..core.prop import Prop
from ..gen import pipelines as PL
from ..gen import steps as ST
from ..seams import faults as F
from ..seams.fs import FsSeam

OBSERVER_STEPS = ('dump_to_path', 'dump_to_zip', 'stream', 'checkpoint')


def _expand(payload, sub):
    rng = random.Random(payload['gseed'])
    tables = PL.gen_tables(rng, big_p=0.2)
    stats = {}
    sc = PL.gen_pipeline(rng, tables, payload['nsteps'], stats=stats)
    if len(tables) >= 2 and rng.random() < 0.3:
        # steps with handlers of their own around key lookups (join): make sure they are not rare
        try:
            j = ST.gen_join(rng, ST.D(PL.describe(sc, {'calls': {}})), ST.G())
            if j:
                j['fields'] = {'jq%d' % i: v for i, (k, v) in enumerate(sorted(j['fields'].items()))}
                trial = dict(sc, steps=sc['steps'] + [j])
                PL.describe(trial, {'calls': {}})
                sc['steps'] = trial['steps']
        except Exception:  # noqa
            pass
    sc['source_kinds'] = [rng.choice(['list', 'gen']) for _ in tables]
    # make sure something observable sits downstream most of the time
    if rng.random() < 0.6:
        sc['steps'].append(ST.GENS[rng.choice(['dump_to_path', 'dump_to_zip', 'stream', 'checkpoint'])](rng, None, ST.G(tags=None)))
        sc['steps'][-1] = _uniq(sc['steps'][-1], 'z')
    sc['gen_stats'] = stats
    return sc


def _uniq(spec, suffix):
    spec = dict(spec)
    for k in ('out', 'name'):
        if k in spec and spec['step'] in OBSERVER_STEPS:
            spec[k] = spec[k].replace('.zip', '') + suffix + ('.zip' if spec['step'] == 'dump_to_zip' else '')
    if spec['step'] == 'stream':
        spec['out'] = 'strm' + suffix + '/s.ndjson'
    return spec


def gen_fault(rng, sc, K, kv_ops):
    n = len(sc['steps'])
    nres = len(sc['tables'])
    exc = rng.choice(F.EXC_CLASSES)
    kinds = ['step', 'step', 'step', 'source', 'poison']
    if any(sp['step'] in ('join', 'join_with_self') for sp in sc['steps']):
        kinds += ['poison', 'poison']
    if any(len(t['rows']) > 100 for t in sc['tables']):
        kinds += ['source', 'source']
    if K > 0:
        kinds += ['io', 'io']
    if kv_ops > 0:
        kinds.append('kv')
    kind = rng.choice(kinds)
    if exc == 'StopIteration':
        # only a plain row function can raise StopIteration into a dataflows frame (inside a generator of the harness
        # Python itself turns it into RuntimeError): e.g. next() on an exhausted lookup iterator
        return {'kind': 'step', 'pos': rng.randrange(n + 1), 'phase': 'rowfunc', 'exc': exc, 'call': rng.choice([0, 1, 3])}
    if kind == 'step':
        pos = rng.randrange(n + 1)
        ph = rng.choice(['package', 'row', 'row', 'end', 'after-all', 'rowfunc', 'cond-predicate', 'cond-factory'])
        f = {'kind': 'step', 'pos': pos, 'phase': ph, 'exc': exc}
        if ph in ('row', 'end'):
            f['res'] = rng.randrange(nres + 1)
            f['row'] = rng.choice([0, 0, 1, 2, 5, 99, 100])
        if ph == 'rowfunc':
            f['call'] = rng.choice([0, 1, 3])
        return f
    if kind == 'poison':
        if rng.random() < 0.5:
            exc = rng.choice(F.HANDLED_CLASSES)
        keyed = []
        for i, sp in enumerate(sc['steps']):
            if sp['step'] == 'join':
                keyed += [(i, sp['target'], k) for k in sp['target_key']] + [(i, sp['source'], k) for k in sp['source_key']]
            elif sp['step'] == 'join_with_self':
                keyed += [(i, sp['resource'], k) for k in sp['key']]
        if keyed and rng.random() < 0.8:
            # the cell the step is about to use as a key (rendered, hashed, compared inside the step's own try blocks)
            i, rn, k = rng.choice(keyed)
            exc = rng.choice(['KeyError', 'KeyError', 'KeyError'] + F.HANDLED_CLASSES)      # a lookup miss is what such steps have handlers for
            return {'kind': 'poison', 'pos': i, 'res': 0, 'res_name': rn, 'field_name': k, 'row': rng.choice([0, 0, 1, 2]), 'exc': exc}
        return {'kind': 'poison', 'pos': rng.randrange(n + 1), 'res': rng.randrange(nres), 'row': rng.choice([0, 0, 1, 2]), 'field': rng.randrange(4), 'exc': exc}
    if kind == 'source':
        ti = rng.randrange(nres)
        big = [i for i, t in enumerate(sc['tables']) if len(t['rows']) > 100]
        if big and rng.random() < 0.7:
            ti = rng.choice(big)        # a failure beyond the inference sample happens in the row phase
            nrows = len(sc['tables'][ti]['rows'])
            return {'kind': 'source', 'res': ti, 'after': rng.choice([100, 101, nrows - 1, nrows, (100 + nrows) // 2]), 'exc': exc}
        nrows = len(sc['tables'][ti]['rows'])
        return {'kind': 'source', 'res': ti, 'after': rng.choice([0, nrows, nrows // 2, max(0, nrows - 1), 100, 101]), 'exc': exc}
    if kind == 'io':
        return {'kind': 'io', 'k': rng.randrange(1, K + 1), 'errno': rng.choice(['ENOSPC', 'EIO', 'EACCES']), 'frac': rng.choice([0.0, 0.5])}
    return {'kind': 'kv', 'k': rng.randrange(1, kv_ops + 1)}


def _run(payload, sub):
    import dataflows as DF
    from ..core.ctx import jsonable
    sc, fault = payload['sc'], payload.get('fault')
    plan = None
    if fault and fault['kind'] == 'io':
        plan = [{'k': fault['k'], 'kind': 'ioerror', 'errno': fault.get('errno', 'EIO'), 'frac': fault.get('frac', 0.0)}]
    seam = FsSeam(sub, os.getcwd(), plan=plan, bufsize=payload.get('bufsize'))
    seam.install()
    kv = F.install_kv(sub, size=payload.get('kvsize'), fail_at=fault['k'] if fault and fault['kind'] == 'kv' else None)
    env = {'calls': {}}
    links = []
    try:
        _build_links(sc, fault, sub, env, links)
    except Exception as e:  # noqa  - raised while the step objects are being *constructed*, i.e. before any Flow exists
        return {'construct_raised': type(e).__name__, 'seam_ops': seam.n, 'kv_ops': kv['n'], 'ops': [], 'op_paths': []}
    return _go(payload, sub, links, seam, kv)


def _build_links(sc, fault, sub, env, links):
    for ti, t in enumerate(sc['tables']):
        rows = PL.T.rows_of(t)
        if fault and fault['kind'] == 'source' and fault['res'] == ti:
            links.append(F.raising_source(rows, fault['after'], fault['exc'], sub))
        else:
            k = (sc.get('source_kinds') or ['list'] * 9)[ti]
            links.append((r for r in rows) if k == 'gen' else rows)
    for i, sp in enumerate(sc['steps']):
        if fault and fault['kind'] == 'step' and fault['pos'] == i:
            links.append(F.tripwire(fault, sub))
        if fault and fault['kind'] == 'poison' and fault['pos'] == i:
            links.append(F.poisoner(fault, sub))
        links.extend(ST.build(sp, env))
    if fault and fault['kind'] == 'step' and fault['pos'] >= len(sc['steps']):
        links.append(F.tripwire(fault, sub))
    if fault and fault['kind'] == 'poison' and fault['pos'] >= len(sc['steps']):
        links.append(F.poisoner(fault, sub))


def _go(payload, sub, links, seam, kv):
    import dataflows as DF
    api = payload.get('api', 'process')
    flow = DF.Flow(*links)
    if api == 'results':
        rows, dp, stats = flow.results()
        out = {'nrows': [len(r) for r in rows]}
    else:
        dp, stats = flow.process()
        out = {}
    out['seam_ops'] = seam.n
    out['kv_ops'] = kv['n']
    out['ops'] = [list(o) for o in seam.ops if not o[2].startswith('tmp/')][:400]
    out['op_paths'] = sorted(set(o[2] for o in seam.ops))
    return out


def artifacts(sc, d):
    """-> {step index: True if that observer committed its descriptor / checkpoint}"""
    out = {}
    for i, sp in enumerate(sc['steps']):
        s = sp['step']
        if s == 'dump_to_path':
            out[i] = os.path.exists(os.path.join(d, sp['out'], 'datapackage.json'))
        elif s == 'dump_to_zip':
            p = os.path.join(d, sp['out'])
            ok = False
            if os.path.exists(p):
                try:
                    with zipfile.ZipFile(p) as z:
                        ok = 'datapackage.json' in z.namelist()
                except Exception:  # noqa
                    ok = False
            out[i] = ok
        elif s == 'stream':
            out[i] = os.path.exists(os.path.join(d, sp['out']))
        elif s == 'checkpoint':
            out[i] = os.path.exists(os.path.join(d, '.checkpoints', sp['name'], 'stream.ndjson'))
    return out


# ------------------------------------------------------------------ parallelize under the scheduler
def _run_par(payload, sub):
    import dataflows as DF
    from ..seams import sched as S
    sc = payload
    par = sys.modules['dataflows.processors.parallelize']
    n, nw = sc['n'], sc['workers']
    s = S.Sched(sub, sub.rng('sched'), strategy=sc.get('strategy', 'uniform'), schedule=sc.get('schedule'),
                step_cap=600 * (n + nw) + 6000, params={'est_steps': 30 * (n + nw) + 60})
    S.install(s, par, cpu_count=1)
    fault = sc['fault']

    def row_func(row):
        row['c'] = row['_id'] * 7 + 1

    src = [{'_id': i, 'a': 'v%d' % i, 'c': -1} for i in range(n)]
    links = [src]
    trip = F.tripwire({'phase': fault['phase'], 'res': 0, 'row': fault.get('row', 0), 'exc': fault['exc'], 'call': fault.get('row', 0)}, sub)
    if fault['where'] == 'upstream':
        links.append(trip)
    pred = {'none': None, 'some': (lambda row: row['_id'] % 3 != 0), 'late': (lambda row: row['_id'] >= n - 2)}[sc.get('predicate', 'none')]
    links.append(DF.parallelize(row_func, num_processors=nw, predicate=pred))
    if fault['where'] == 'downstream':
        links.append(trip)
    flow = DF.Flow(*links)
    res = {'exc': None}
    try:
        s.run_main(lambda: flow.process())
    except S.Deadlock as e:
        res['deadlock'] = str(e)
    except S.StepCap as e:
        res['stepcap'] = str(e)
    except BaseException as e:  # noqa
        from ..core.ctx import describe_exc
        res['exc'] = describe_exc(e)
    res['leaked'] = s.leaked()
    res['join_timeouts'] = s.join_timeouts
    res['now'] = s.now
    res['steps'] = s.steps
    res['schedule'] = list(s.trace)
    sub.count('sched_steps', s.steps)
    S.guard_real_concurrency()
    return res


class C04(Prop):
    ID = 'C04'
    TITLE = 'A failing step never yields a successful run'
    LEVEL = 'fault_enumeration'
    TECHNIQUE = 'deterministic simulation with single-fault injection (tripwire steps, raising sources, I/O errors at the file-system seam, KVFile errors; parallelize under the seeded scheduler) + outcome/durable-state oracle'
    SIMTIME_UNIT = 'pipeline executions (forked), seam ops, KVFile ops, scheduler steps'
    RULE = ('one evaluation = one seeded well-typed pipeline over the whole step alphabet (sources, field/row/resource/package steps, join, sort_rows, duplicate, dumpers, stream, '
            'checkpoint) or a parallelize pipeline under the seam-B scheduler, run once fault-free (to count fault sites) and then with exactly one fault: site kind x position x phase '
            '(package / row k / exhaustion / after-all) x one of 20 exception classes incl. the schema library\'s cast / validation / unique-key classes. '
            'Non-trivial = the injected fault fired; distinct = distinct (fault kind, phase, exception class, kind of the step it hit or preceded, API).')
    ASSUMPTIONS = ['the injected instance must be ProcessorError.cause or on the __cause__/__context__ chain of it (dependencies may wrap a source error)',
                   'BaseException subclasses and StopIteration are not injected (their handling is Python\'s)',
                   'an exception raised by parallelize\'s row function is documented to be logged and skipped: not injected']
    REAL_VS_STUB = {'real': ['all dataflows code of the generated pipeline', 'parallelize.py under seam B'],
                    'stub': ['file-system seam (io.FileIO subclass, os wrappers)', 'KVFile twin (counts ops, raises sqlite3.OperationalError)', 'seam B twins for the parallelize pipelines']}
    PROBES = ['fault-not-reached', 'observer-after-failure', 'fault-in-package-phase', 'fault-at-exhaustion', 'fault-after-all', 'io-error-fired', 'kv-error-fired',
              'source-raise-in-sample', 'source-raise-after-sample', 'parallelize-upstream-raise', 'parallelize-downstream-raise', 'prebuilt-processor-error', 'poison-fired', 'poison-on-a-key-cell', 'fault-in-conditional', 'sweep-complete'] + ['in-failed-pipeline:' + k for k in sorted(ST.GENS)]
    TIERS = {'quick': dict(runs=900, wall=100, run_wall=300),
             'thorough': dict(runs=25000, wall=1700, run_wall=600)}
    SHRINK_FROZEN = ('fields', 'gen_stats')

    def generate(self, rng, tier):
        if rng.random() < 0.12:
            n = rng.choice([1, 2, 3, 5, 8])
            return {'par': {'n': n, 'workers': rng.choice([1, 2, 3]), 'predicate': rng.choice(['none', 'some', 'late']),
                            'strategy': rng.choice(['uniform', 'pct2', 'sticky', 'lazy-feeder']),
                            'fault': {'where': rng.choice(['upstream', 'upstream', 'downstream']), 'phase': rng.choice(['row', 'row', 'end', 'after-all', 'package']),
                                      'row': rng.randrange(n), 'exc': rng.choice(F.EXC_CLASSES)}}}
        sweep = rng.random() < (0.02 if tier == 'quick' else 0.15)
        return {'gseed': rng.randrange(2**62), 'nsteps': rng.choice([1, 2, 3, 4, 6]) if not sweep else rng.choice([1, 2, 3]), 'fseed': rng.randrange(2**62), 'sweep': sweep,
                'api': rng.choice(['process', 'results']), 'bufsize': rng.choice([None, 64]), 'kvsize': rng.choice([None, 2, 7])}

    def execute(self, sc, ctx):
        if 'par' in sc:
            return self.execute_par(sc, ctx)
        if 'steps' not in sc:
            r = ctx.subrun(_expand, sc)
            if r['status'] != 'ok':
                ctx.discard('generation failed')
            new = r['value']
            for k in ('fseed', 'api', 'bufsize', 'kvsize', 'fault', 'sweep'):
                if k in sc:
                    new[k] = sc[k]
            sc = new
        base = {'sc': sc, 'api': sc.get('api', 'process'), 'bufsize': sc.get('bufsize'), 'kvsize': sc.get('kvsize')}
        d0 = os.path.join(ctx.scratch, 'ref')
        os.makedirs(d0)
        os.chdir(d0)
        ref = ctx.subrun(_run, base)
        if ref['status'] != 'ok':
            ctx.discard('fault-free run raises: %s' % json.dumps(ref.get('exc'))[:200])
        K, kv_ops = ref['value']['seam_ops'], ref['value']['kv_ops']
        if sc.get('sweep') and 'fault' not in sc:
            # every step position x phase (one exception class each, round robin), every row position first/middle/last of every
            # resource, every I/O seam op, every KVFile op of this pipeline
            faults = []
            n = len(sc['steps'])
            nres = len(sc['tables'])
            classes = list(F.EXC_CLASSES)
            rr = random.Random(sc['fseed'])
            rr.shuffle(classes)
            ci = [0]

            def nxt():
                ci[0] += 1
                c = classes[ci[0] % len(classes)]
                return c if c != 'StopIteration' else 'Boom'
            for pos in range(n + 1):
                faults.append({'kind': 'step', 'pos': pos, 'phase': 'package', 'exc': nxt()})
                faults.append({'kind': 'step', 'pos': pos, 'phase': 'after-all', 'exc': nxt()})
                faults.append({'kind': 'step', 'pos': pos, 'phase': 'cond-predicate', 'exc': nxt()})
                faults.append({'kind': 'step', 'pos': pos, 'phase': 'cond-factory', 'exc': nxt()})
                faults.append({'kind': 'step', 'pos': pos, 'phase': 'rowfunc', 'call': 0, 'exc': nxt()})
                faults.append({'kind': 'step', 'pos': pos, 'phase': 'rowfunc', 'call': 1, 'exc': 'StopIteration'})
                for r_ in range(nres + 1):
                    faults.append({'kind': 'step', 'pos': pos, 'phase': 'end', 'res': r_, 'row': 0, 'exc': nxt()})
                    for row in (0, 1, 2):
                        faults.append({'kind': 'step', 'pos': pos, 'phase': 'row', 'res': r_, 'row': row, 'exc': nxt()})
            for k in range(1, K + 1):
                faults.append({'kind': 'io', 'k': k, 'errno': 'ENOSPC', 'frac': 0.0})
            kvs = list(range(1, kv_ops + 1))
            if len(kvs) > 16:
                # a join makes one KVFile op per row: first and last ones plus an evenly spaced sample
                kvs = sorted(set(kvs[:4] + kvs[-4:] + kvs[::max(1, len(kvs) // 8)]))
            for k in kvs:
                faults.append({'kind': 'kv', 'k': k})
            for ti, t in enumerate(sc['tables']):
                for after in sorted(set([0, len(t['rows']) // 2, len(t['rows'])])):
                    faults.append({'kind': 'source', 'res': ti, 'after': after, 'exc': nxt()})
            for i, sp in enumerate(sc['steps']):
                keyed = []
                if sp['step'] == 'join':
                    keyed = [(sp['target'], k) for k in sp['target_key']] + [(sp['source'], k) for k in sp['source_key']]
                elif sp['step'] == 'join_with_self':
                    keyed = [(sp['resource'], k) for k in sp['key']]
                for rn, k in keyed:
                    for row in (0, 1):
                        for exc in ('KeyError', 'ValueError'):
                            faults.append({'kind': 'poison', 'pos': i, 'res': 0, 'res_name': rn, 'field_name': k, 'row': row, 'exc': exc})
            ctx.extra['expanded'] = sc
            for fi, fault in enumerate(faults):
                self._one_fault(dict(sc, fault=fault), base, fault, ctx, 'f%d' % fi)
            ctx.probe('sweep-complete')
            ctx.count('sweep_faults', len(faults))
            ctx.sample = {'steps': sc['steps'], 'sweep': True, 'fault_sites': len(faults), 'sources': [len(t['rows']) for t in sc['tables']]}
            return
        if 'fault' not in sc:
            sc = dict(sc)
            sc['fault'] = gen_fault(random.Random(sc['fseed']), sc, K, kv_ops)
        ctx.extra['expanded'] = sc
        self._one_fault(sc, base, sc['fault'], ctx, 'run')

    def _one_fault(self, sc, base, fault, ctx, tag):
        before = {k: ctx.fired.get(k, 0) for k in ('step-raise', 'source-raise', 'io-error', 'kv-error', 'poison')}
        d1 = os.path.join(ctx.scratch, tag)
        os.makedirs(d1)
        os.chdir(d1)
        r = ctx.subrun(_run, dict(base, sc=sc, fault=fault))
        fired = any(ctx.fired.get(k, 0) > before[k] for k in before)
        try:
            self._judge(sc, base, fault, ctx, r, fired, d1)
        finally:
            os.chdir(ctx.scratch)
            import shutil
            shutil.rmtree(d1, ignore_errors=True)

    def _judge(self, sc, base, fault, ctx, r, fired, d1):
        ctx.extra['last_fault'] = fault
        if r['status'] == 'ok' and r['value'].get('construct_raised'):
            ctx.probe('fault-at-construction')
            ctx.sample = {'steps': sc['steps'], 'fault': fault, 'note': 'fault fired while step objects were constructed (outside process()): not judged'}
            return
        if not fired:
            ctx.probe('fault-not-reached')
            if r['status'] != 'ok' and fault['kind'] != 'poison':
                ctx.violation('raised-without-fault', r['exc']['type'], 'run raised although the injected fault never fired: %s' % json.dumps(r['exc'])[:500])
            ctx.sample = {'steps': sc['steps'], 'fault': fault, 'fired': False}
            return
        # which step did the fault hit / precede
        steps = sc['steps']
        if fault['kind'] == 'step':
            pos = fault['pos']
            hit = steps[pos]['step'] if pos < len(steps) else 'end-of-pipeline'
            fail_pos = pos - 0.5
            {'package': 'fault-in-package-phase', 'end': 'fault-at-exhaustion', 'after-all': 'fault-after-all', 'cond-predicate': 'fault-in-conditional', 'cond-factory': 'fault-in-conditional'}.get(fault['phase']) and ctx.probe(
                {'package': 'fault-in-package-phase', 'end': 'fault-at-exhaustion', 'after-all': 'fault-after-all', 'cond-predicate': 'fault-in-conditional', 'cond-factory': 'fault-in-conditional'}[fault['phase']])
        elif fault['kind'] == 'poison':
            ctx.probe('poison-fired')
            if fault.get('res_name'):
                ctx.probe('poison-on-a-key-cell')
            # the step that touched the cell is at or after the planting position: artifacts strictly after the *end* cannot be attributed -> judged from the planting position
            hit, fail_pos = 'poison', len(steps)
        elif fault['kind'] == 'source':
            hit, fail_pos = 'source', -1
            ctx.probe('source-raise-in-sample' if fault['after'] < 100 else 'source-raise-after-sample')
        elif fault['kind'] == 'io':
            ctx.probe('io-error-fired')
            # attribute the failing op to the observer step that owns the path
            opath = None
            for e in reversed(ctx.events):
                if isinstance(e, (list, tuple)) and len(e) > 5 and e[1] == 'fault' and e[2] == 'io-error':
                    opath = e[5]
                    break
            fail_pos = None
            for i, sp in enumerate(steps):
                own = sp.get('out') or (sp['step'] == 'checkpoint' and '.checkpoints/' + sp['name'])
                if own and opath and (opath.startswith(own.split('/')[0]) or own in opath):
                    fail_pos = i
            hit = steps[fail_pos]['step'] if fail_pos is not None else 'temp-file'
            if fail_pos is None:
                fail_pos = len(steps)         # a temp file: cannot attribute -> do not judge artifacts
        else:
            ctx.probe('kv-error-fired')
            kvsteps = [i for i, sp in enumerate(steps) if sp['step'] in ('join', 'join_with_self', 'sort_rows', 'duplicate')]
            hit, fail_pos = 'kv', (max(kvsteps) if kvsteps else len(steps))
        if fault.get('exc') == 'df.ProcessorError':
            ctx.probe('prebuilt-processor-error')
        ctx.nt(fault['kind'], fault.get('phase'), fault.get('exc') or fault.get('errno'), hit, base['api'])
        for sp in steps:
            ctx.probe('in-failed-pipeline:' + sp['step'])
        ctx.sample = {'steps': steps, 'fault': fault, 'api': base['api'], 'sources': [len(t['rows']) for t in sc['tables']]}
        if r['status'] == 'ok':
            ctx.violation('returned-normally', '%s:%s' % (fault['kind'], fault.get('exc') or fault.get('errno') or ''),
                          '%s() returned normally although the injected fault fired (%s); steps=%s' % (base['api'], json.dumps(fault), json.dumps(steps)[:500]))
        exc = r['exc']
        if exc['type'] != 'dataflows.base.exceptions.ProcessorError':
            ctx.violation('not-processor-error', exc['type'], 'raised %s instead of ProcessorError: %s (fault %s)' % (exc['type'], exc['str'][:200], json.dumps(fault)))
        markers = [c.get('marker') for c in exc['chain']] + [(exc.get('cause') or {}).get('marker')]
        want = {'step': 'trip', 'source': 'source', 'kv': 'kv', 'poison': 'poison'}.get(fault['kind'])
        if fault['kind'] == 'io':
            ok = any(m and str(m).startswith('io-error@') for m in markers)
        else:
            ok = want in markers
        if not ok:
            ctx.violation('wrong-cause', '%s:%s' % (fault['kind'], fault.get('exc') or ''), 'the injected exception is neither ProcessorError.cause nor on its cause chain: raised %s, chain %s (fault %s)' % (
                exc['str'][:200], json.dumps([c['type'] for c in exc['chain']]), json.dumps(fault)))
        arts = artifacts(sc, d1)
        later = {i: v for i, v in arts.items() if i > fail_pos}
        if later:
            ctx.probe('observer-after-failure')
        for i, committed in sorted(later.items()):
            if committed:
                kind = 'checkpoint' if steps[i]['step'] in ('checkpoint', 'stream') else 'descriptor'
                ctx.violation('artifact-after-failure:' + kind, steps[i]['step'], '%s at position %d (after the failure at %s) committed its %s although the run failed (fault %s)' % (
                    steps[i]['step'], i, fail_pos, kind, json.dumps(fault)), step=steps[i]['step'])

    def execute_par(self, sc, ctx):
        p = sc['par']
        r = ctx.subrun(_run_par, dict(p, schedule=sc.get('schedule')), ambient=False)      # seam B of its own
        if r['status'] != 'ok':
            from ..core.ctx import HarnessError
            raise HarnessError('parallelize sub-run failed: %s' % json.dumps(r)[:500])
        v = r['value']
        ctx.extra['schedule'] = v['schedule']
        fault = p['fault']
        fired = ctx.fired.get('step-raise')
        if not fired:
            ctx.probe('fault-not-reached')
            return
        ctx.probe('parallelize-%s-raise' % fault['where'])
        ctx.nt('par', fault['where'], fault['phase'], fault['exc'], p['workers'], p['predicate'])
        ctx.sample = p
        if v.get('deadlock'):
            ctx.violation('deadlock', 'parallelize', 'a failing %s step under parallelize leaves the run unable to make progress: %s' % (fault['where'], v['deadlock']), where=fault['where'])
        if v.get('stepcap'):
            from ..core.ctx import HarnessError
            raise HarnessError('step cap: ' + v['stepcap'])
        exc = v.get('exc')
        if exc is None:
            ctx.violation('returned-normally', 'parallelize:' + fault['where'], 'process() returned normally although a %s step raised %s' % (fault['where'], fault['exc']), where=fault['where'])
        if exc['type'] != 'dataflows.base.exceptions.ProcessorError':
            ctx.violation('not-processor-error', exc['type'], 'raised %s instead of ProcessorError' % exc['type'], where=fault['where'])
        markers = [c.get('marker') for c in exc['chain']] + [(exc.get('cause') or {}).get('marker')]
        if 'trip' not in markers:
            ctx.violation('wrong-cause', 'parallelize:' + fault['where'], 'a %s step raised %s under parallelize but the run raised %s (chain %s); leaked tasks %r, join timeouts %d' % (
                fault['where'], fault['exc'], exc['str'][:200], json.dumps([c['type'] for c in exc['chain']]), v['leaked'], v['join_timeouts']), where=fault['where'])
        if v['leaked']:
            ctx.violation('leaked-task', 'parallelize:' + fault['where'], 'after the failed run tasks are still alive: %r' % v['leaked'], where=fault['where'])
        if v['join_timeouts']:
            ctx.violation('join-timeout-used', 'parallelize:' + fault['where'], 'the failed run had to wait out %d join timeout(s) (%.0f virtual s)' % (v['join_timeouts'], v['now']), where=fault['where'])

    def focus(self, sc, rec):
        ex = rec.get('extra') or {}
        if 'par' in sc:
            if ex.get('schedule') is not None and sc.get('schedule') is None:
                return dict(sc, schedule=ex['schedule'])
            return None
        if 'steps' not in sc and ex.get('expanded'):
            new = dict(ex['expanded'])
            if new.get('sweep') and ex.get('last_fault'):
                new['fault'] = ex['last_fault']
                new['sweep'] = False
            return new
        return None


PROP = C04()
