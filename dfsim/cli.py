import argparse
import importlib
import os
import sys


def bootstrap():
    """Import dataflows from the tree under test; install harness-side accelerators."""
    repo = os.path.realpath(os.environ.get('VERIF_REPO', '/repo'))
    sys.path.insert(0, repo)
    import dataflows
    got = os.path.realpath(os.path.dirname(os.path.dirname(dataflows.__file__)))
    if got != repo:
        print('HARNESS-ERROR dataflows imported from %s, expected %s' % (got, repo))
        sys.exit(2)
    import logging
    logging.disable(logging.CRITICAL)
    import warnings
    warnings.simplefilter('ignore')
    if not os.environ.get('DFSIM_NO_ACCEL'):
        # datapackage re-validates the *static* profile JSON-schema on every Package/Resource
        # construction (~35 ms); memoise per profile name.  Dependency code, not dataflows.
        from datapackage.profile import Profile
        orig = Profile._check_schema
        seen = set()

        def _check_schema(self):
            name = self._name if isinstance(self._name, str) else None
            if name is not None and name in seen:
                return
            orig(self)
            if name is not None:
                seen.add(name)
        Profile._check_schema = _check_schema
        # warm the cache in the zygote so every forked run inherits it
        from datapackage import Package, Resource
        Package({'name': 'warm', 'resources': [{'name': 'r', 'path': 'r.csv', 'profile': 'tabular-data-resource',
                                               'schema': {'fields': [{'name': 'a', 'type': 'string'}]}}]})
        Resource({'name': 'r', 'path': 'r.csv'})
        Resource({'name': 'r', 'path': 'r.csv', 'profile': 'tabular-data-resource', 'schema': {'fields': []}})
    return repo


PROPS = ['C01', 'C03', 'C04', 'C05', 'C06', 'C07', 'C08', 'C09', 'C11', 'C12', 'C14', 'C16', 'C18', 'C19', 'C20']


def load_prop(pid):
    mod = importlib.import_module('dfsim.props.' + pid.lower())
    return mod.PROP


def main(argv):
    ap = argparse.ArgumentParser(prog='check')
    ap.add_argument('what')
    ap.add_argument('--tier', default=os.environ.get('VERIF_TIER', 'quick'), choices=['quick', 'thorough'])
    ap.add_argument('--replay')
    ap.add_argument('--runs', type=int)
    ap.add_argument('--workers', type=int, default=int(os.environ.get('DFSIM_WORKERS', '16')))
    ap.add_argument('--no-evidence', action='store_true')
    a = ap.parse_args(argv)
    seed = int(os.environ.get('VERIF_SEED', '0') or 0)
    if a.what.startswith('selftest'):
        from dfsim import selftest
        return selftest.main(a.what, a, seed)
    bootstrap()
    from dfsim.core import engine, pool
    try:
        prop = load_prop(a.what)
        if a.replay:
            return engine.replay(prop, a.replay, a.tier)
        return engine.run_check(prop, a.tier, seed, workers=a.workers, runs=a.runs, write_evidence=not a.no_evidence)
    finally:
        pool.cleanup_scratch()
