import argparse
import importlib
import os
import sys


def bootstrap():
    """Import dataflows from the tree under test; install harness-side accelerators."""
    repo = os.path.realpath(os.environ.get('VERIF_REPO', '/repo'))
    sys.path.insert(0, repo)
    import dataflows
    got = os.path.realpath(os.path.dirname(os.path.dirname(dataflows.__file__)))
    if got != repo:
        print('HARNESS-ERROR dataflows imported from %s, expected %s' % (got, repo))
        sys.exit(2)
    import logging
    logging.disable(logging.CRITICAL)
    import warnings
    warnings.simplefilter('ignore')
    if not os.environ.get('DFSIM_NO_ACCEL'):
        # datapackage re-validates the *static* profile JSON-schema on every Package/Resource
        # construction (~35 ms); memoise per profile name.  Dependency code, not dataflows.
        from datapackage.profile import Profile
        orig = Profile._check_schema
        seen = set()

        def _check_schema(self):
            name = self._name if isinstance(self._name, str) else None
            if name is not None and name in seen:
                return
            orig(self)
            if name is not None:
                seen.add(name)
        Profile._check_schema = _check_schema
        # warm the cache in the zygote so every forked run inherits it
        from datapackage import Package, Resource
        Package({'name': 'warm', 'resources': [{'name': 'r', 'path': 'r.csv', 'profile': 'tabular-data-resource',
                                               'schema': {'fields': [{'name': 'a', 'type': 'string'}]}}]})
        Resource({'name': 'r', 'path': 'r.csv'})
        Resource({'name': 'r', 'path': 'r.csv', 'profile': 'tabular-data-resource', 'schema': {'fields': []}})
    return repo


PROPS = ['C01', 'C03', 'C04', 'C05', 'C06', 'C07', 'C08', 'C09', 'C11', 'C12', 'C14', 'C16', 'C18', 'C19', 'C20']


def load_prop(pid):
    mod = importlib.import_module('dfsim.props.' + pid.lower())
    return mod.PROP


def main(argv):
    ap = argparse.ArgumentParser(prog='check')
    ap.add_argument('what')
    ap.add_argument('--tier', default=os.environ.get('VERIF_TIER', 'quick'), choices=['quick', 'thorough'])
    ap.add_argument('--replay')
    ap.add_argument('--runs', type=int)
    ap.add_argument('--workers', type=int, default=int(os.environ.get('DFSIM_WORKERS', '16')))
    ap.add_argument('--no-evidence', action='store_true')
    ap.add_argument('--no-shrink', action='store_true', help='report violations without minimising them (self-tests)')
    ap.add_argument('--digests', action='store_true', help='print one DIGEST line per run (determinism self-test)')
    ap.add_argument('--only', help='selftests: restrict to one property / mutant')
    ap.add_argument('--dump', type=int, help='run only index i and print its full record incl. events')
    a = ap.parse_args(argv)
    seed = int(os.environ.get('VERIF_SEED', '0') or 0)
    if a.what.startswith('selftest'):
        from dfsim import selftest
        return selftest.main(a.what, a, seed)
    bootstrap()
    from dfsim.core import engine, pool
    try:
        prop = load_prop(a.what)
        if a.replay:
            return engine.replay(prop, a.replay, a.tier)
        if a.dump is not None:
            import json
            from dfsim.core import seeds
            os.environ['DFSIM_KEEP_EVENTS'] = '1'
            pool.scratch_root()
            rec = pool.run_one(prop, {'i': a.dump, 'seed': seeds.run_seed(seed, prop.ID, a.tier, a.dump)}, a.tier, 600)
            print(json.dumps(rec, indent=1, default=repr))
            return 0
        if a.digests:
            from dfsim.core import seeds
            n = a.runs or 48
            tasks = [{'i': i, 'seed': seeds.run_seed(seed, prop.ID, a.tier, i)} for i in range(n)]
            for r in pool.run_batch(prop, tasks, a.tier, workers=a.workers, wall=int(os.environ.get('DFSIM_RUN_WALL', 0)) or prop.TIERS[a.tier].get('run_wall', 60)):
                print('DIGEST %d %s %s %s' % (r['i'], r.get('digest'), r['verdict'], r.get('n_events')))
            return 0
        if a.no_shrink:
            os.environ['DFSIM_NO_SHRINK'] = '1'
        return engine.run_check(prop, a.tier, seed, workers=a.workers, runs=a.runs, write_evidence=not a.no_evidence)
    finally:
        pool.cleanup_scratch()
