#!/bin/sh
# Nothing to build: verify the interpreter, the tree under test and the harness import; byte-compile dfsim into a scratch dir only.
set -e
cd "$(dirname "$0")"
/venv/bin/python - <<'PY'
import os, sys, compileall, tempfile, shutil
sys.path.insert(0, os.environ.get('VERIF_REPO', '/repo'))
import dataflows, hypothesis  # noqa  (hypothesis present but unused)
assert os.path.realpath(dataflows.__file__).startswith(os.path.realpath(os.environ.get('VERIF_REPO', '/repo'))), dataflows.__file__
import kvfile, tableschema, datapackage, tabulator, sqlalchemy  # noqa
d = tempfile.mkdtemp(prefix='dfsim-pyc-')
os.environ['PYTHONPYCACHEPREFIX'] = d
sys.pycache_prefix = d
ok = compileall.compile_dir('dfsim', quiet=1)
shutil.rmtree(d, ignore_errors=True)
assert ok, 'dfsim does not byte-compile'
print('setup ok: dataflows from', dataflows.__file__)
PY
mkdir -p evidence replays
