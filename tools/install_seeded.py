#!/venv/bin/python
"""Copies confirmed sub-agent mutants from /tmp/mut/<ID>-<k>/ into /verif/seeded/<ID>-<k>/ (patch.diff, demo.py, meta.json).
usage: tools/install_seeded.py [--caught-by FILE.json]"""
import json
import os
import shutil
import sys

SRC = '/tmp/mut'
DST = os.path.join(os.path.dirname(os.path.dirname(os.path.abspath(__file__))), 'seeded')


def main():
    os.makedirs(DST, exist_ok=True)
    for name in sorted(os.listdir(SRC)):
        d = os.path.join(SRC, name)
        if not os.path.isdir(d) or not os.path.exists(os.path.join(d, 'patch.diff')):
            continue
        cf = os.path.join(d, 'confirm.json')
        if not os.path.exists(cf):
            print('skip %s: not confirmed yet' % name)
            continue
        conf = json.load(open(cf))
        ok = conf['demo_clean_exit'] == 0 and conf['demo_patched_exit'] == 1 and conf['suite_summary'].startswith('4 failed, 120 passed')
        if not ok:
            print('skip %s: confirmation failed: %s' % (name, conf))
            continue
        out = os.path.join(DST, name)
        os.makedirs(out, exist_ok=True)
        shutil.copy(os.path.join(d, 'patch.diff'), os.path.join(out, 'patch.diff'))
        if os.path.exists(os.path.join(d, 'patch.orig.diff')):
            shutil.copy(os.path.join(d, 'patch.orig.diff'), os.path.join(out, 'patch.orig.diff'))
        shutil.copy(os.path.join(d, 'demo.py'), os.path.join(out, 'demo.py'))
        try:
            meta = json.load(open(os.path.join(d, 'meta.json')))
        except Exception:  # noqa
            meta = {}
        old = {}
        if os.path.exists(os.path.join(out, 'meta.json')):
            old = json.load(open(os.path.join(out, 'meta.json')))
        new = {
            'property': meta.get('property') or name.split('-')[0],
            'breaks': meta.get('summary'),
            'needs_to_manifest': meta.get('needs'),
            'files': meta.get('files'),
            'author': 'independent sub-agent given only the property text and a scratch worktree of /repo',
            'author_ran': meta.get('ran'),
            'confirmed_by_me': {'what_i_ran': 'tools/confirm_mutant.sh %s (scratch worktree: demo on clean tree, git apply, demo on patched tree, import check, full baseline suite)' % d,
                                'demo_clean_exit': conf['demo_clean_exit'], 'demo_patched_exit': conf['demo_patched_exit'], 'suite_with_patch': conf['suite_summary'],
                                'suite_failed_with_patch': conf['suite_failed'].split()},
            'rebased': os.path.exists(os.path.join(d, 'patch.orig.diff')),
            'caught_by': old.get('caught_by'),
            'notes': old.get('notes'),
        }
        for k in ('neutralised_by', 'also_caught_by', 'detected_as'):
            if k in old:
                new[k] = old[k]
        json.dump(new, open(os.path.join(out, 'meta.json'), 'w'), indent=1)
        print('installed', name)


if __name__ == '__main__':
    main()
