#!/venv/bin/python
"""Regenerates /verif/MANIFEST.json from the property modules that exist (so it is valid at all times)."""
import importlib
import json
import os
import sys

HERE = os.path.dirname(os.path.dirname(os.path.abspath(__file__)))
sys.path.insert(0, HERE)

NA = {
    'C02': 'Agreement of emitted rows with the emitted descriptor is a pure function of (pipeline, input): no schedule, clock, fault, crash point, persisted state or hidden knob enters the statement; a simulator would add nothing but an input generator (DESIGN.md section 5).',
    'C10': 'Selector semantics (None / regex / list / index) are a pure function of (processor, selector, resource names); ResourceMatcher and its call sites touch no I/O, time, or shared state (DESIGN.md section 5).',
    'C13': "load's fidelity to a well-formed file is a pure function of file content and options; the only I/O is reading an input the property assumes intact (DESIGN.md section 5).",
    'C15': 'Field-level processors are per-row pure functions kept consistent with a package-phase edit; nothing but data and parameters enters (DESIGN.md section 5).',
    'C17': 'filter_rows, deduplicate and unpivot are pure stream transformers with in-memory state only; no knob, no I/O, no schedule (DESIGN.md section 5).',
}
ALL = ['C%02d' % i for i in range(1, 21)]
DESIGN_REF = 'DESIGN.md section 4 (%s)'


def level_text(prop):
    if prop.LEVEL == 'fault_enumeration':
        head = ('Fault enumeration inside a deterministic simulation: for each seeded workload the fault sites (numbered file-system seam ops, step/row/phase positions) are counted by a fault-free '
                'run and then faults are injected at sampled sites, and at EVERY site x mode for a share of the workloads (complete sweeps; the share grows in the thorough tier). '
                'A clean run is evidence over the sampled workloads and the swept fault sites, not a proof; the space of workloads is sampled. This is the right level because the property is '
                'quantified over crash points / fault sequences, which are finite and enumerable per workload, while workloads are not. ')
    else:
        head = ('Seeded exploration inside a deterministic simulation: every run is a pure function of one integer (workload, knobs, ambient environment, faults and - where there is one - every '
                'scheduling decision), executed in a freshly forked process and replayable bit-exactly; violations are minimised and written as replay files. A clean run is evidence over the '
                'explored cases, not a proof. This is the right level because the property is quantified over unbounded spaces (programs, inputs, schedules, histories) that can be sampled but not enumerated. ')
    return head + 'What one run explores: ' + prop.RULE


def main():
    checks = []
    na = []
    for pid in ALL:
        if pid in NA:
            na.append({'property_id': pid, 'reason': NA[pid]})
            continue
        try:
            mod = importlib.import_module('dfsim.props.' + pid.lower())
            prop = mod.PROP
            if getattr(prop, 'DISABLED', None):
                raise ImportError(prop.DISABLED)
        except ImportError as e:
            na.append({'property_id': pid, 'reason': 'not claimed yet: check not built (%s); planned in DESIGN.md section 4' % str(e)[:80]})
            continue
        checks.append({
            'property_id': pid,
            'quick_cmd': './check %s --tier quick' % pid,
            'thorough_cmd': './check %s --tier thorough' % pid,
            'evidence_file': 'evidence/%s.json' % pid,
            'replay_cmd_template': './check %s --replay {path}' % pid,
            'engine': 'dfsim',
            'level_claimed': {'category': prop.LEVEL, 'text': level_text(prop),
                              'design_ref': DESIGN_REF % pid},
            'level_note': '; '.join(prop.ASSUMPTIONS) or 'see DESIGN.md',
            'technique': prop.TECHNIQUE,
        })
    man = {
        'version': 1,
        'setup_cmd': './setup.sh',
        'hooks': {
            'guard': 'DATAFLOWS_VERIF',
            'enable': 'no source hooks are needed: every seam is reached by rebinding module globals from the harness (DESIGN.md section 1.3); checks import /repo (or $VERIF_REPO) directly',
            'baseline_off_cmd': 'cd /repo && /venv/bin/python -m pytest -ra -q -p no:cacheprovider --timeout=900 --continue-on-collection-errors',
            'source_commits': [],
            'add_only': True,
        },
        'engines': [{'name': 'dfsim', 'path': 'dfsim/', 'serves_properties': [c['property_id'] for c in checks],
                     'kind_free_text': 'deterministic simulation with fault injection: seeded fork-per-run executor, file-system seam with crash/torn-write/IO-error injection, baton-passing scheduler for parallelize with virtual time, knob/environment seams, reference models, ddmin shrinker, replay files'}],
        'checks': checks,
        'not_applicable': na,
        'notes': 'Exit codes of every check: 0 held on everything explored; 1 VIOLATION (replay file written); 2 harness error / nondeterminism (no verdict). VERIF_SEED and VERIF_TIER are honoured. VERIF_REPO (default /repo) selects the tree under test. Known findings: known_findings.json.',
    }
    with open(os.path.join(HERE, 'MANIFEST.json'), 'w') as f:
        json.dump(man, f, indent=1)
    print('MANIFEST.json: %d checks, %d not_applicable' % (len(checks), len(na)))


if __name__ == '__main__':
    main()
