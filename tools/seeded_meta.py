#!/venv/bin/python
"""Fills caught_by / first_clause of seeded/<id>/meta.json from a `./check selftest-mutants` log, and the manual notes below."""
import json
import os
import sys

HERE = os.path.dirname(os.path.dirname(os.path.abspath(__file__)))
NOTES = {
    'C04-b': {'neutralised_by': 'da1974b', 'notes': 'The change removes the UniqueKeyError clause of safe_process so that the error falls into the CastError branch; since fix da1974b that branch raises too, so the property holds with this change applied (no longer a breaking change). Kept as a record; C04 does inject tableschema UniqueKeyError (calibration mutant C04-unique-key-error-swallowed is caught).'},
    'C16r2-a': {'extra_caught_by': ['C01']},
    'C05-a': {'extra_caught_by': ['C07']},
    'C07r3-a': {'caught_by_override': ['C08'], 'notes': 'Written against C07 (resume); what it breaks is observable only after an interrupted run, which is C08 territory: C08 catches it (recovery clauses), C07 - which never interrupts a run - does not.'},
    'C19r4-b': {'caught_by_override': ['C04'], 'notes': 'Needs an interruption that is an exception, not a kill (a finally block runs): C19 is quantified over kills and does not see it; C04 artifact-after-failure:descriptor does.'},
    'C08r4-b': {'extra_caught_by': ['C04']},
    'C01r5-a': {'caught_by_override': ['C07', 'C05'], 'notes': 'stream() / checkpoint() write rows in late batches: the rows, descriptors and schedules C01 compares are unaffected (C01 does not read checkpoint or stream files); the saved stream is what C05 (completeness of the stream file) and C07 (mutating steps after a checkpoint, then resume) look at.'},
    'C01r5-b': {'notes': 'Missed until the executable model of the row-step contract was added to C01 (clause link-without-effect): every schedule goes through the same row_processor, so the differential alone cannot see a row function whose returned empty row is ignored.'},
    'C16r5-b': {'caught_by_override': ['C07'], 'notes': 'load keeps half-consumed iterators after an aborted run: needs a failed run of the same Flow object followed by a retry, with a path source - the C07 history op failrun with sources from a data package on disk.'},
    'C07r4-b': {'caught_by_override': ['C08'], 'notes': 'exists() = "the checkpoint directory is there": within run/delete/run histories the directory and the finished file always appear and disappear together (nested checkpoint names included), so C07 cannot see it; a directory without a finished file is what an interrupted run leaves behind, and C08 catches it (recovery-raised).'},
}


def main():
    log = sys.argv[1]
    res = {}
    for ln in open(log):
        if ln.startswith('seeded/'):
            parts = ln.split()
            name = parts[0].split('/')[1]
            pid = parts[1]
            caught = parts[2] == 'caught'
            clause = ln[ln.index('clause='):].strip()[:200] if 'clause=' in ln else None
            res.setdefault(name, []).append((pid, caught, clause))
    for name in sorted(os.listdir(os.path.join(HERE, 'seeded'))):
        mp = os.path.join(HERE, 'seeded', name, 'meta.json')
        if not os.path.exists(mp):
            continue
        meta = json.load(open(mp))
        if name in res:
            meta['caught_by'] = sorted(set(p for p, c, _ in res[name] if c)) or None
            meta['detected_as'] = [c for _, ok, c in res[name] if ok and c][:2]
        n = NOTES.get(name, {})
        if 'neutralised_by' in n:
            meta['neutralised_by'] = n['neutralised_by']
            meta['caught_by'] = None
        if 'notes' in n:
            meta['notes'] = n['notes']
        if n.get('caught_by_override') and not meta.get('caught_by'):
            meta['caught_by'] = n['caught_by_override']
        if n.get('extra_caught_by'):
            meta['also_caught_by'] = n['extra_caught_by']
        json.dump(meta, open(mp, 'w'), indent=1)
        print(name, meta.get('caught_by'), meta.get('neutralised_by'))


if __name__ == '__main__':
    main()
