#!/venv/bin/python
"""Builds the calibration mutants under selftest/mutants/ from (file, old, new) triples against /repo HEAD.
These are deliberately property-breaking edits used only to calibrate the checks (sensitivity self-test);
they are applied to scratch copies, never to /repo."""
import difflib
import os
import subprocess
import sys

HERE = os.path.dirname(os.path.dirname(os.path.abspath(__file__)))
OUT = os.path.join(HERE, 'selftest', 'mutants')

M = {}


def mut(name, *edits):
    M[name] = edits


P = 'dataflows/processors/'
# ---- C18
mut('C18-fetcher-first-end-marker', (P + 'parallelize.py', "            if expected_nones == 0:\n", "            if expected_nones <= num_processors - 1:\n"))
mut('C18-one-end-marker-too-few', (P + 'parallelize.py', "        for _ in range(num_processors):\n            q_in.put(None)\n", "        for _ in range(num_processors - 1):\n            q_in.put(None)\n"))
mut('C18-put-before-apply', (P + 'parallelize.py', "            try:\n                row_func(row)\n            except Exception as e:\n                print(pid, 'FAILED TO RUN row_func {}\\n'.format(e))\n                pass\n            q_out.put(row)\n",
     "            q_out.put(row)\n            try:\n                row_func(row)\n            except Exception as e:\n                print(pid, 'FAILED TO RUN row_func {}\\n'.format(e))\n                pass\n"))
mut('C18-bypass-direct-yield', (P + 'parallelize.py', "            else:\n                q_internal.put(row)\n        for _ in range(num_processors):", "            else:\n                q_in.put(row)\n        for _ in range(num_processors):"))
# ---- C08
mut('C08-no-active-suffix', (P + 'stream.py', "ACTIVE_SUFFIX = '.active'", "ACTIVE_SUFFIX = ''"),
    (P + 'stream.py', "        if filename:\n            os.rename(filename, filename[:-len(ACTIVE_SUFFIX)])\n", "        if filename and ACTIVE_SUFFIX:\n            os.rename(filename, filename[:-len(ACTIVE_SUFFIX)])\n"))
mut('C08-rename-after-first-resource', (P + 'stream.py', "            yield res_writer(res)\n            file.write('\\n')\n        file.close()\n        if filename:\n            os.rename(filename, filename[:-len(ACTIVE_SUFFIX)])\n",
     "            yield res_writer(res)\n            file.write('\\n')\n            file.flush()\n            if filename and not os.path.exists(filename[:-len(ACTIVE_SUFFIX)]):\n                os.link(filename, filename[:-len(ACTIVE_SUFFIX)])\n        file.close()\n        if filename:\n            os.unlink(filename)\n"))
mut('C08-exists-checks-active-too', (P + 'checkpoint.py', "        if os.path.exists(self.filename):\n            print('using", "        if os.path.exists(self.filename) or os.path.exists(self.filename + '.active'):\n            if not os.path.exists(self.filename):\n                os.rename(self.filename + '.active', self.filename)\n            print('using"))
# ---- C19
mut('C19-descriptor-first', (P + 'dumpers/dumper_base.py', "        self.initialize()\n\n        resource: ResourceWrapper = None\n", "        self.initialize()\n        self.handle_datapackage()\n\n        resource: ResourceWrapper = None\n"))


def main():
    os.makedirs(OUT, exist_ok=True)
    only = sys.argv[1:] or None
    for name, edits in M.items():
        if only and name not in only:
            continue
        diffs = []
        byfile = {}
        for f, old, new in edits:
            src = byfile.get(f)
            if src is None:
                src = subprocess.run(['git', '-C', '/repo', 'show', 'HEAD:' + f], capture_output=True, text=True, check=True).stdout
                byfile[f] = src
            if src.count(old) != 1:
                print('!! %s: pattern occurs %d times in %s' % (name, src.count(old), f))
                break
            byfile[f] = src.replace(old, new)
        else:
            for f, new_src in byfile.items():
                orig = subprocess.run(['git', '-C', '/repo', 'show', 'HEAD:' + f], capture_output=True, text=True, check=True).stdout
                diffs.append(''.join(difflib.unified_diff(orig.splitlines(True), new_src.splitlines(True), 'a/' + f, 'b/' + f)))
            with open(os.path.join(OUT, name + '.patch'), 'w') as fh:
                fh.write(''.join(diffs))
            print('wrote', name)


if __name__ == '__main__':
    main()
