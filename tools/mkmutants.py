#!/venv/bin/python
"""Builds the calibration mutants under selftest/mutants/ from (file, old, new) triples against /repo HEAD.
These are deliberately property-breaking edits used only to calibrate the checks (sensitivity self-test);
they are applied to scratch copies, never to /repo."""
import difflib
import os
import subprocess
import sys

HERE = os.path.dirname(os.path.dirname(os.path.abspath(__file__)))
OUT = os.path.join(HERE, 'selftest', 'mutants')

M = {}


def mut(name, *edits):
    M[name] = edits


P = 'dataflows/processors/'
# ---- C18
mut('C18-fetcher-first-end-marker', (P + 'parallelize.py', "            if expected_nones == 0:\n", "            if expected_nones <= num_processors - 1:\n"))
mut('C18-one-end-marker-too-few', (P + 'parallelize.py', "        for _ in range(num_processors):\n            q_in.put(None)\n", "        for _ in range(num_processors - 1):\n            q_in.put(None)\n"))
mut('C18-put-before-apply', (P + 'parallelize.py', "            try:\n                row_func(row)\n            except Exception as e:\n                print(pid, 'FAILED TO RUN row_func {}\\n'.format(e))\n                pass\n            q_out.put(row)\n",
     "            q_out.put(row)\n            try:\n                row_func(row)\n            except Exception as e:\n                print(pid, 'FAILED TO RUN row_func {}\\n'.format(e))\n                pass\n"))
mut('C18-bypass-direct-yield', (P + 'parallelize.py', "            else:\n                q_internal.put(row)\n    except Exception as e:", "            else:\n                q_in.put(row)\n    except Exception as e:"))
mut('C18-fetcher-stops-on-empty-poll', (P + 'parallelize.py', "        row = q_out.get()\n        if row is None:\n            expected_nones -= 1",
     "        try:\n            row = q_out.get(timeout=2)\n        except queue.Empty:\n            q_internal.put(None)\n            break\n        if row is None:\n            expected_nones -= 1"))
# ---- C08
mut('C08-no-active-suffix', (P + 'stream.py', "ACTIVE_SUFFIX = '.active'", "ACTIVE_SUFFIX = ''"),
    (P + 'stream.py', "        if filename:\n            os.rename(filename, filename[:-len(ACTIVE_SUFFIX)])\n", "        if filename and ACTIVE_SUFFIX:\n            os.rename(filename, filename[:-len(ACTIVE_SUFFIX)])\n"))
mut('C08-rename-after-first-resource', (P + 'stream.py', "            yield res_writer(res)\n            file.write('\\n')\n        file.close()\n        if filename:\n            os.rename(filename, filename[:-len(ACTIVE_SUFFIX)])\n",
     "            yield res_writer(res)\n            file.write('\\n')\n            file.flush()\n            if filename and not os.path.exists(filename[:-len(ACTIVE_SUFFIX)]):\n                os.link(filename, filename[:-len(ACTIVE_SUFFIX)])\n        file.close()\n        if filename:\n            os.unlink(filename)\n"))
mut('C08-exists-checks-active-too', (P + 'checkpoint.py', "        if os.path.exists(self.filename):\n            print('using", "        if os.path.exists(self.filename) or os.path.exists(self.filename + '.active'):\n            if not os.path.exists(self.filename):\n                os.rename(self.filename + '.active', self.filename)\n            print('using"))
# ---- C19
mut('C19-descriptor-first', (P + 'dumpers/dumper_base.py', "        self.initialize()\n\n        resource: ResourceWrapper = None\n", "        self.initialize()\n        self.handle_datapackage()\n\n        resource: ResourceWrapper = None\n"))

# ---- C01
B = 'dataflows/base/'
H = 'dataflows/helpers/'
mut('C01-row-processor-shared-dict', (H + 'row_processor.py', "        ret = self.func(row)\n        if ret is None:\n            return row\n        return ret\n",
     "        ret = self.func(row)\n        if ret is None:\n            return row\n        self._last = getattr(self, '_last', None) or {}\n        self._last.clear()\n        self._last.update(ret)\n        return self._last\n"))
# (dropping dataflows' deepcopy of the upstream descriptor is an *equivalent* mutant: datapackage.Package copies its descriptor itself)
mut('C01-conditional-reprocesses-source', (P + 'conditional.py', "            return flow.datastream(ds)\n", "            return flow.datastream(self.source)\n"))
# ---- C03
F = P + 'dumpers/formats/'
mut('C03-bool-lowercase', (F + 'base.py', "        return field.descriptor['serializer'](value)\n", "        if value is True or value is False:\n            return str(value).lower() if self.NULL_VALUE == '' else value\n        return field.descriptor['serializer'](value)\n"))
mut('C03-date-format-mismatch', (F + 'format_csv.py', "        'date': lambda d: d.strftime(DATE_F_FORMAT),\n", "        'date': lambda d: d.strftime('%d/%m/%Y'),\n"))
mut('C03-number-as-float-in-csv', (F + 'format_csv.py', "        'year': lambda d: '{:04d}'.format(d),\n", "        'year': lambda d: '{:04d}'.format(d),\n        'number': lambda d: repr(float(d)),\n"))
# ---- C04
mut('C04-dumper-swallows-row-errors', (P + 'dumpers/file_dumper.py', "        for row in resource:\n            writer.write_row(row)\n            yield row\n        writer.finalize_file()\n",
     "        try:\n            for row in resource:\n                writer.write_row(row)\n                yield row\n        except Exception:\n            logging.exception('failed processing resource')\n        writer.finalize_file()\n"),
    (P + 'dumpers/file_dumper.py', "import os\nimport json\n", "import os\nimport json\nimport logging\n"))
mut('C04-descriptor-in-finally', (P + 'dumpers/dumper_base.py', "        resource: ResourceWrapper = None\n        for resource in resources:\n            ret = self.process_resource(\n                        ResourceWrapper(\n                            resource.res,\n                            schema_validator(resource.res, resource,\n                                             **self.schema_validator_options)\n                        )\n            )\n            ret = self.row_counter(resource, ret)\n            yield ret\n",
     "        resource: ResourceWrapper = None\n        try:\n            for resource in resources:\n                ret = self.process_resource(\n                            ResourceWrapper(\n                                resource.res,\n                                schema_validator(resource.res, resource,\n                                                 **self.schema_validator_options)\n                            )\n                )\n                ret = self.row_counter(resource, ret)\n                yield ret\n        except Exception:\n            self.handle_datapackage()\n            raise\n"))
mut('C04-unique-key-error-swallowed', (B + 'datastream_processor.py', "        except UniqueKeyError as e:\n            self.raise_exception(e)\n", "        except UniqueKeyError as e:\n            logging.error('%s', e)\n"))
# ---- C05
mut('C05-delete-resource-no-drain', (P + 'delete_resource.py', "            else:\n                collections.deque(r, maxlen=0)\n", "            else:\n                pass\n"))
mut('C05-finalizer-early', (P + 'finalizer.py', "            yield from base_func()\n            if 'stats' in signature(self.callback).parameters:", "            it = base_func()\n            first = next(it, None)\n            if first is not None:\n                yield first\n            pending = list(it)\n            if 'stats' in signature(self.callback).parameters:"),
    (P + 'finalizer.py', "            else:\n                self.callback()\n", "            else:\n                self.callback()\n            yield from pending\n"))
mut('C05-printer-stops-after-sample', (P + 'printer.py', "        for i, row in enumerate(rows):\n\n            index = i + 1\n", "        for i, row in enumerate(rows):\n\n            index = i + 1\n            if index > 3 * num_rows + 50:\n                yield row\n                continue\n"))
# ---- C06
mut('C06-filter-materialises', (P + 'filter_rows.py', "def process_resource(rows, condition):\n    for row in rows:", "def process_resource(rows, condition):\n    rows = list(rows)\n    for row in rows:"))
mut('C06-describe-reads-all', (H + 'iterable_loader.py', "                sample = list(itertools.islice(self.iterable, self.SAMPLE_SIZE))\n", "                sample = list(self.iterable)\n"))
# ---- C07
mut('C07-datetime-tz-dropped', (H + 'extended_json.py', "                if tzname is not None:\n", "                if tzname is not None and tzofs == 0:\n"))
mut('C07-upstream-runs-despite-checkpoint', (P + 'checkpoint.py', "            print('using checkpoint data from {}'.format(self.checkpoint_path))\n            return unstream(self.filename),\n",
     "            print('using checkpoint data from {}'.format(self.checkpoint_path))\n            import collections\n            collections.deque((collections.deque(r, maxlen=0) for r in Flow(*self.chain).datastream().res_iter), maxlen=0)\n            return unstream(self.filename),\n"))
mut('C07-empty-resource-separator-skipped', (P + 'stream.py', "        for res in package:\n            yield res_writer(res)\n            file.write('\\n')\n", "        for res in package:\n            state = {'n': 0}\n            yield res_writer(res, state)\n            if state['n']:\n                file.write('\\n')\n"),
    (P + 'stream.py', "    def res_writer(res):\n        for r in res:\n            write(r)\n            yield r\n", "    def res_writer(res, state=None):\n        for r in res:\n            write(r)\n            if state is not None:\n                state['n'] += 1\n            yield r\n"))
# ---- C09
mut('C09-hash-before-finalize', (P + 'dumpers/file_dumper.py', "        writer.finalize_file()\n\n        # Get resource descriptor", "        prehash = FileDumper.hash_handler(temp_file).hexdigest() if self.resource_hash else None\n        temp_file.seek(0, 2)\n        writer.finalize_file()\n\n        # Get resource descriptor"),
    (P + 'dumpers/file_dumper.py', "            DumperBase.set_attr(resource_descriptor, self.resource_hash, hasher.hexdigest())\n", "            DumperBase.set_attr(resource_descriptor, self.resource_hash, prehash)\n"))
mut('C09-bytes-as-chars', (P + 'dumpers/file_dumper.py', "        temp_file.seek(0, os.SEEK_END)\n        filesize = temp_file.tell()\n", "        temp_file.flush()\n        temp_file.seek(0)\n        filesize = len(temp_file.read())\n        temp_file.seek(0, 2)\n"))
# ---- C11
mut('C11-first-as-last', (P + 'join.py', "    'first': Aggregator(lambda curr, new:\n                        curr if curr is not None else new,", "    'first': Aggregator(lambda curr, new:\n                        new,"))
mut('C11-missing-key-matches-empty', (P + 'join.py', "                try:\n                    extra = create_extra_by_key(key)\n                    db_keys_usage.set(key, True)\n                except KeyError:\n",
     "                try:\n                    try:\n                        extra = create_extra_by_key(key)\n                    except KeyError:\n                        key = 'None'\n                        extra = create_extra_by_key(key)\n                    db_keys_usage.set(key, True)\n                except KeyError:\n"))
mut('C11-full-outer-emits-used-keys', (P + 'join.py', "                    if value is False:\n                        extra = create_extra_by_key(key)\n", "                    if value is False or key.endswith('1'):\n                        extra = create_extra_by_key(key)\n"))
# ---- C12
mut('C12-no-sign-inversion', (P + 'sort_rows.py', "                        if value < 0:\n                            bits.invert(range(1, 64))\n", "                        if value < -1:\n                            bits.invert(range(1, 64))\n"))
mut('C12-no-rownum-suffix', (P + 'sort_rows.py', "            key = key_calc(row) + '\\x00{:08x}'.format(row_num)\n", "            key = key_calc(row) + '\\x00{:02x}'.format(row_num % 7)\n"))
# ---- C14
mut('C14-clear-nulls-all-checked', (B + 'schema_validator.py', "    if field is not None:\n        row[field.name] = None\n        return True\n", "    if field is not None:\n        row[field.name] = None\n        if i % 3 == 2:\n            for k in list(row):\n                if k != 'id':\n                    row[k] = None\n        return True\n"))
mut('C14-index-off-by-one', (B + 'schema_validator.py', "    for i, row in enumerate(iterator):\n        field = None\n", "    for i, row in enumerate(iterator, start=1):\n        field = None\n"))
mut('C14-drop-also-drops-next', (B + 'schema_validator.py', "        if okay:\n            yield row\n", "        if okay and not getattr(schema_validator, '_skip', False):\n            yield row\n        schema_validator._skip = (not okay) and i % 5 == 4\n"))
# ---- C16
mut('C16-concat-one-too-many', (P + 'concatenate.py', "                                                     num_concatenated-1))\n", "                                                     num_concatenated))\n"))
mut('C16-duplicate-copy-before-original-drained', (P + 'duplicate.py', "    db.insert(batch, batch_size=batch_size)\n\n\ndef loader", "    db.insert(batch[:-1] if len(batch) > 3 else batch, batch_size=batch_size)\n\n\ndef loader"))
# ---- C20
mut('C20-append-as-rewrite', (P + 'dumpers/to_sql.py', "            if mode == 'rewrite' and '' in storage.buckets:\n", "            if mode in ('rewrite', 'append') and '' in storage.buckets and self.batch_size == 2:\n"))
mut('C20-updated-flag-always-false', (P + 'dumpers/to_sql.py', "            row[self.updated_column] = updated\n", "            row[self.updated_column] = bool(updated) and self.use_bloom_filter\n"))
mut('C20-update-keys-first-field-only', (P + 'dumpers/to_sql.py', "                if update_keys is None:\n                    update_keys = schema_descriptor.get('primaryKey', [])\n", "                if update_keys is None:\n                    update_keys = schema_descriptor.get('primaryKey', [])\n                update_keys = update_keys[:1]\n"))
mut('C16-iterable-name-collides', (H + 'iterable_loader.py', "            while 'res_{}'.format(index) in existing:\n                index += 1\n", "            pass\n"))
mut('C07-load-keeps-previous-run', (P + 'load.py', "        # Running the same flow again starts from scratch\n        self.resource_descriptors = []\n        self.iterators = []\n", "        # Running the same flow again starts from scratch\n"))
mut('C09-size-from-unused-handle', (P + 'dumpers/file_dumper.py', "        temp_file.seek(0, os.SEEK_END)\n        filesize = temp_file.tell()\n", "        filesize = temp_file.tell()\n"))
mut('C09-existing-descriptor-kept', ('dataflows/processors/dumpers/to_path.py', "        hashed = self.add_filehash_to_path and self.resource_hash and os.path.basename(path) != 'datapackage.json'\n", "        hashed = self.add_filehash_to_path\n"))
mut('C09-package-rowcount-across-runs', (P + 'dumpers/dumper_base.py', "        DumperBase.inc_attr(self.datapackage.descriptor, self.datapackage_rowcount, counter)\n",
     "        self.total_rows = getattr(self, 'total_rows', 0) + counter\n        DumperBase.set_attr(self.datapackage.descriptor, self.datapackage_rowcount, self.total_rows)\n"))
# ---- a change that introduces a thread of its own (ambient thread seam): lines are written by a background writer;
# the end-of-stream marker is queued but the writer is not joined before the file is published
mut('C07-stream-background-writer',
    (P + 'stream.py', "import sys\nimport os\n", "import sys\nimport os\nimport queue\nimport threading\n"),
    (P + 'stream.py', "    def write(obj):\n        file.write(ejson.dumps(obj, sort_keys=True, ensure_ascii=True)+'\\n')\n        file.flush()\n",
     "    lines = queue.Queue()\n\n    def writer():\n        while True:\n            line = lines.get()\n            if line is None:\n                break\n            file.write(line)\n            file.flush()\n\n    def write(obj):\n        lines.put(ejson.dumps(obj, sort_keys=True, ensure_ascii=True)+'\\n')\n"),
    (P + 'stream.py', "        write(package.pkg.descriptor)\n        yield package.pkg\n        for res in package:\n            yield res_writer(res)\n            file.write('\\n')\n        file.close()\n",
     "        worker = threading.Thread(target=writer, daemon=True)\n        worker.start()\n        write(package.pkg.descriptor)\n        yield package.pkg\n        for res in package:\n            yield res_writer(res)\n            lines.put('\\n')\n        lines.put(None)\n        worker.join(timeout=0.01)\n        file.close()\n"))
mut('C14-validate-drops-unselected-call', (P + 'validate.py', "            yield from super().process_resource(res)\n", "            yield from super().process_resource()\n"))
mut('C07-validate-selector-overwritten', (P + 'validate.py', "        self.matcher = ResourceMatcher(self.resources, dp)\n", "        self.matcher = self.resources = ResourceMatcher(self.resources, dp)\n"))
mut('C07-join-index-built-once', (P + 'join.py', "    db_keys_usage = None\n    db = None\n", "    db_keys_usage = KVFile()\n    db = KVFile()\n"),
    (P + 'join.py', "        nonlocal db, db_keys_usage\n        db_keys_usage = KVFile()\n        db = KVFile()\n", "        nonlocal db, db_keys_usage\n"))
mut('C07-computed-field-args-mutated', (P + 'add_computed_field.py', "        fields = [dict(f) for f in fields]\n", "        fields = list(fields)\n"))
mut('C12-format-literals-dropped', (P + 'sort_rows.py', "                        ret += formatters[i].format(**{key: value}) + literals[i + 1]\n", "                        ret += formatters[i].format(**{key: value})\n"))
mut('C07-set_type-fields-accumulate', (P + 'set_type.py', "        # Start over, so that the same flow can run again\n        self.field_names = dict()\n", "        # Start over, so that the same flow can run again\n"))


def main():
    os.makedirs(OUT, exist_ok=True)
    only = sys.argv[1:] or None
    for name, edits in M.items():
        if only and name not in only:
            continue
        diffs = []
        byfile = {}
        for f, old, new in edits:
            src = byfile.get(f)
            if src is None:
                src = subprocess.run(['git', '-C', '/repo', 'show', 'HEAD:' + f], capture_output=True, text=True, check=True).stdout
                byfile[f] = src
            if src.count(old) != 1:
                print('!! %s: pattern occurs %d times in %s' % (name, src.count(old), f))
                break
            byfile[f] = src.replace(old, new)
        else:
            for f, new_src in byfile.items():
                orig = subprocess.run(['git', '-C', '/repo', 'show', 'HEAD:' + f], capture_output=True, text=True, check=True).stdout
                diffs.append(''.join(difflib.unified_diff(orig.splitlines(True), new_src.splitlines(True), 'a/' + f, 'b/' + f)))
            with open(os.path.join(OUT, name + '.patch'), 'w') as fh:
                fh.write(''.join(diffs))
            print('wrote', name)


if __name__ == '__main__':
    main()
