#!/bin/sh
# usage: tools/confirm_mutant.sh /tmp/mut/<ID>-<k>   -> writes <dir>/confirm.json
# Confirms, in a scratch worktree of /repo: demo passes clean, fails patched; the baseline suite is unchanged with the patch.
set -u
M="$1"
N=$(basename "$M")
W=/tmp/wt/confirm-$N
git -C /repo worktree remove --force "$W" >/dev/null 2>&1
git -C /repo worktree add --detach "$W" HEAD >/dev/null 2>&1 || { echo "cannot create worktree"; exit 3; }
cd "$W"
timeout 300 /venv/bin/python "$M/demo.py" "$W" > "$M/demo.clean.out" 2>&1; RC_CLEAN=$?
git apply "$M/patch.diff" || { echo "patch does not apply"; cd /; git -C /repo worktree remove --force "$W"; exit 3; }
timeout 300 /venv/bin/python "$M/demo.py" "$W" > "$M/demo.patched.out" 2>&1; RC_PATCHED=$?
/venv/bin/python -c "import dataflows, dataflows.processors" >/dev/null 2>&1; RC_COMPILE=$?
timeout 1500 /venv/bin/python -m pytest -ra -q -p no:cacheprovider --timeout=900 --continue-on-collection-errors > "$M/suite.patched.out" 2>&1
SUMMARY=$(tail -1 "$M/suite.patched.out")
FAILED=$(grep -E "^FAILED" "$M/suite.patched.out" | sed 's/ - .*//' | sort | tr '\n' ' ')
cd /
git -C /repo worktree remove --force "$W"
# orphan workers of failed parallelize runs
for p in $(pgrep -f "$W" 2>/dev/null); do kill -9 "$p" 2>/dev/null; done
cat > "$M/confirm.json" <<EOF
{"demo_clean_exit": $RC_CLEAN, "demo_patched_exit": $RC_PATCHED, "compile_exit": $RC_COMPILE, "suite_summary": "$SUMMARY", "suite_failed": "$FAILED"}
EOF
cat "$M/confirm.json"
