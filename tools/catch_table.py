#!/venv/bin/python
"""Prints the markdown catch table (DESIGN.md appendix A) from seeded/*/meta.json and the last mutant self-test log."""
import json
import os
import sys

HERE = os.path.dirname(os.path.dirname(os.path.abspath(__file__)))


def main():
    log = sys.argv[1] if len(sys.argv) > 1 else None
    cal = []
    if log:
        for ln in open(log):
            if ln.startswith('seeded/') or ln.startswith('selftest-mutants') or not ln.strip():
                continue
            parts = ln.split()
            if len(parts) >= 3 and parts[1].startswith('C'):
                clause = ''
                if 'clause=' in ln:
                    clause = ln[ln.index('clause='):].split(' runs=')[0]
                cal.append((parts[0], parts[1], parts[2], clause))
    print('### Seeded changes written by independent sub-agents (property text + scratch worktree only)\n')
    print('| id | property | what the change does | needs, in order to manifest | caught by | detected as |')
    print('|---|---|---|---|---|---|')
    for name in sorted(os.listdir(os.path.join(HERE, 'seeded'))):
        mp = os.path.join(HERE, 'seeded', name, 'meta.json')
        if not os.path.exists(mp):
            continue
        m = json.load(open(mp))
        caught = ', '.join((m.get('caught_by') or []) + (m.get('also_caught_by') or [])) or ('— (neutralised by fix %s)' % m['neutralised_by'] if m.get('neutralised_by') else '**missed**')
        det = '; '.join((d.split(' runs=')[0] for d in (m.get('detected_as') or [])))[:90]
        print('| %s | %s | %s | %s | %s | %s |' % (name, m.get('property'), (m.get('breaks') or '').replace('|', '/').replace('\n', ' ')[:230],
                                               (m.get('needs_to_manifest') or '').replace('|', '/').replace('\n', ' ')[:200], caught, det.replace('|', '/')))
    if cal:
        print('\n### Calibration mutants (`tools/mkmutants.py`)\n')
        print('| mutant | check | result | detected as |')
        print('|---|---|---|---|')
        for name, pid, res, clause in cal:
            print('| %s | %s | %s | %s |' % (name, pid, res, clause.replace('|', '/')[:100]))


if __name__ == '__main__':
    main()
