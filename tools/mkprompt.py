#!/venv/bin/python
"""Writes /tmp/mut/prompt-<ID>r<N>.txt for a new round of sub-agent mutants: the property text only, plus one-line
summaries of the earlier rounds' changes (so that they are not repeated).  usage: tools/mkprompt.py <round> <ID>..."""
import glob
import json
import os
import re
import sys

HERE = os.path.dirname(os.path.dirname(os.path.abspath(__file__)))
TEMPLATE = open('/tmp/mut/prompt-C20r3.txt').read() if os.path.exists('/tmp/mut/prompt-C20r3.txt') else None


def main():
    rnd = sys.argv[1]
    props = {json.loads(l)['id']: json.loads(l) for l in open(os.path.join(HERE, 'properties.jsonl'))}
    base = TEMPLATE
    head, rest = base.split('PROPERTY C20', 1)
    _, tail = rest.split('\nRules\n', 1)
    tail = tail.split('\n\nAdditional constraints:')[0]
    for pid in sys.argv[2:]:
        p = props[pid]
        tag = '%sr%s' % (pid, rnd)
        earlier = []
        for m in sorted(glob.glob(os.path.join(HERE, 'seeded', pid + '*', 'meta.json'))):
            b = (json.load(open(m)).get('breaks') or '').strip().replace('\n', ' ')
            if b:
                earlier.append(re.sub(r'\s+', ' ', b)[:260])
        text = head + 'PROPERTY %s — %s\nStatement: %s\nScope (what it is quantified over): %s\n\nRules\n' % (pid, p['title'], p['statement'], p['quantifier']['text'])
        text += tail.replace('C20r3', tag).replace('"property": "C20"', '"property": "%s"' % pid)
        text += '\n\nAdditional constraints: earlier rounds already produced the changes summarised below, so do NOT repeat them and prefer different files / mechanisms:\n'
        text += '\n'.join('  - ' + e for e in earlier)
        text += ('\nNever run `rm -rf /tmp/wt` and never remove anything under /tmp/wt other than your own worktree /tmp/wt/%s. The machine is heavily loaded by other jobs: '
                 'the test suite may take 3-6 minutes; use generous timeouts for your demo but keep its own work small.\nNote: /repo HEAD contains several recent "fix:" commits; build on HEAD as it is. '
                 'Running the suite creates an untracked test_excel/ directory in the checkout; leave it out of your patch.\n' % tag)
        out = '/tmp/mut/prompt-%s.txt' % tag
        open(out, 'w').write(text)
        print(out, len(earlier), 'earlier changes listed')


if __name__ == '__main__':
    main()
