#!/bin/sh
# usage: tools/with_patch.sh <patch.diff> <command...>
# Applies the patch (3-way, so patches made against an ancestor of HEAD still apply) to a scratch git worktree of /repo
# under /dev/shm (plus /repo's uncommitted changes), runs the command with VERIF_REPO pointing at it, removes the worktree.
set -u
P=$(readlink -f "$1"); shift
D=$(mktemp -d /dev/shm/repo-mut-XXXXXX)
rmdir "$D"
git -C /repo worktree add --detach "$D" HEAD >/dev/null 2>&1 || { echo "cannot create worktree $D"; exit 3; }
(cd /repo && git diff HEAD -- dataflows) > "$D.wip"
if [ -s "$D.wip" ]; then (cd "$D" && git apply "$D.wip"); fi
rm -f "$D.wip"
(cd "$D" && (git apply "$P" 2>/dev/null || git apply --3way "$P" >/dev/null 2>&1)) || { echo "PATCH DID NOT APPLY: $P"; git -C /repo worktree remove --force "$D"; exit 3; }
if grep -rq '^<<<<<<<' "$D/dataflows"; then echo "PATCH DID NOT APPLY (conflict): $P"; git -C /repo worktree remove --force "$D"; exit 3; fi
VERIF_REPO="$D" "$@"
rc=$?
git -C /repo worktree remove --force "$D"
exit $rc
