#!/bin/sh
# usage: tools/with_patch.sh <patch.diff> <command...>
# Applies the patch to a scratch copy of /repo (under /dev/shm), runs the command with VERIF_REPO pointing at it, removes the copy.
set -u
P="$1"; shift
D=$(mktemp -d /dev/shm/repo-mut-XXXXXX)
git -C /repo archive HEAD dataflows | tar -x -C "$D"
# include uncommitted changes of /repo's working tree
(cd /repo && git diff HEAD -- dataflows) | (cd "$D" && git apply --allow-empty -p1 2>/dev/null || true)
(cd "$D" && git apply -p1 "$P") || { echo "PATCH DID NOT APPLY: $P"; rm -rf "$D"; exit 3; }
VERIF_REPO="$D" "$@"
rc=$?
rm -rf "$D"
exit $rc
