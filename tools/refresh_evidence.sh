#!/bin/sh
# Runs every claimed check (quick tier) in /verif against /repo and rewrites evidence/<ID>.json; prints one summary line per check.
cd "$(dirname "$0")/.."
for p in C01 C03 C04 C05 C06 C07 C08 C09 C11 C12 C14 C16 C18 C19 C20; do
  out=$(./check $p 2>&1); rc=$?
  echo "$p rc=$rc $(echo "$out" | grep -E "^$p:" | cut -c1-150)"
  echo "$out" | grep -E "^VIOLATION|^HARNESS" | cut -c1-300
done
