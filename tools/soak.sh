#!/bin/sh
# usage: tools/soak.sh <tier> <seed-from> <seed-to> [props...]   -- runs checks over a range of VERIF_SEED values, prints one summary line per run
T=$1; A=$2; B=$3; shift 3
PROPS=${*:-"C01 C03 C04 C05 C06 C07 C08 C09 C11 C12 C14 C16 C18 C19 C20"}
s=$A
while [ $s -le $B ]; do
  for p in $PROPS; do
    out=$(VERIF_SEED=$s ./check $p --tier $T --no-evidence 2>&1); rc=$?
    echo "seed=$s $p rc=$rc $(echo "$out" | grep -E "^$p:" | cut -c1-160)"
    echo "$out" | grep -E "^VIOLATION|^  clause|^HARNESS" | cut -c1-400
  done
  s=$((s+1))
done
